(* C03 — every trace of Model/Stack.v is accepted by the monitor Spec/C03Spec.v. *)
From Verif Require Import Base.Prelude Model.Stack Spec.StackObs Spec.BindReg Spec.C03Spec
  Proofs.StackLemmas Proofs.StackInv Proofs.BindRegProofs.
From Verif Require Import Model.StackX Spec.StackXSpec Proofs.StackXProofs.

(* ---------- the data store ---------- *)
Definition kd (x : lfeat) : eaddr * N * list (N * N) := (lf_ent x, lf_id x, lf_data x).

Definition data_of (l : list lfeat) (e : eaddr) (f : N) : option (list (N * N)) :=
  match find (fun x => eqb_eaddr (lf_ent x) e && N.eqb (lf_id x) f) l with
  | Some lf => Some (lf_data lf)
  | None => None
  end.

Lemma data_of_kd l1 : forall l e f, map kd l1 = map kd l -> data_of l1 e f = data_of l e f.
Proof.
  unfold data_of. induction l1 as [|x l1 IH]; intros [|y l] e f H; simpl in *; try discriminate; [reflexivity|].
  inversion H as [[H1 H2 H3 H4]]. rewrite H1, H2.
  destruct (eqb_eaddr (lf_ent y) e && N.eqb (lf_id y) f); [rewrite H3; reflexivity | apply IH; exact H4].
Qed.

Lemma data_of_find s e f lf : find_lfeat s e (Some f) = Some lf -> data_of (lfeats s) e f = Some (lf_data lf).
Proof. unfold find_lfeat, data_of. intros ->. reflexivity. Qed.

Lemma data_of_find_none s e f : find_lfeat s e (Some f) = None -> data_of (lfeats s) e f = None.
Proof. unfold find_lfeat, data_of. intros ->. reflexivity. Qed.

Lemma find_lfeat_key s e f lf : find_lfeat s e (Some f) = Some lf -> lf_ent lf = e /\ lf_id lf = f.
Proof.
  unfold find_lfeat. intros H. apply find_some in H. destruct H as [_ H].
  apply andb_true_iff in H. destruct H as [H1 H2]. apply eqb_eaddr_eq in H1. apply N.eqb_eq in H2. auto.
Qed.

Definition StoreOK (l : list lfeat) (st : list (skey * N)) : Prop :=
  forall e f, match data_of l e f with
              | Some d => forall fn, assoc_N fn d = sget st (e, f, fn)
              | None => forall fn, sget st (e, f, fn) = None
              end.

Lemma storeok_kd l l1 st : map kd l1 = map kd l -> StoreOK l st -> StoreOK l1 st.
Proof. intros H Hs e f. rewrite (data_of_kd l1 l e f H). apply Hs. Qed.

Lemma eqb_skey_eq a b : eqb_skey a b = true <-> a = b.
Proof.
  destruct a as [[e f] fn], b as [[e' f'] fn']. simpl.
  rewrite !andb_true_iff, eqb_eaddr_eq, !N.eqb_eq. split; [intros [[-> ->] ->]; reflexivity | intros H; inversion H; auto].
Qed.

Lemma sget_sset st k v k' : sget (sset st k v) k' = if eqb_skey k' k then Some v else sget st k'.
Proof. reflexivity. Qed.

Lemma assoc_set (fn v : N) (d : list (N * N)) (fn' : N) :
  assoc_N fn' ((fn, v) :: remove_N fn d) = if N.eqb fn' fn then Some v else assoc_N fn' d.
Proof.
  simpl. destruct (N.eqb_spec fn' fn) as [E|E]; [reflexivity|].
  induction d as [|[k x] d IH]; simpl; [reflexivity|].
  destruct (N.eqb_spec fn k) as [E2|E2].
  - rewrite IH. destruct (N.eqb_spec fn' k); [congruence | reflexivity].
  - simpl. destruct (N.eqb fn' k); [reflexivity | exact IH].
Qed.

(* a data-preserving rewrite of the features *)
Lemma kd_map (g : lfeat -> lfeat) l : (forall x, kd (g x) = kd x) -> map kd (map g l) = map kd l.
Proof. intros H. rewrite map_map. apply map_ext. exact H. Qed.

Lemma kd_upd s e f (g : lfeat -> lfeat) : (forall x, kd (g x) = kd x) ->
  map kd (lfeats (upd_lfeat s e f g)) = map kd (lfeats s).
Proof.
  intros H. unfold upd_lfeat. simpl. apply kd_map. intros x.
  destruct (eqb_eaddr (lf_ent x) e && N.eqb (lf_id x) f); [apply H | reflexivity].
Qed.

(* set_data on the features with key (e, f) *)
Lemma data_of_set l e f fn v e' f' :
  data_of (map (fun x => if eqb_eaddr (lf_ent x) e && N.eqb (lf_id x) f then set_data x fn v else x) l) e' f' =
  match data_of l e' f' with
  | Some d => Some (if eqb_eaddr e' e && N.eqb f' f then (fn, v) :: remove_N fn d else d)
  | None => None
  end.
Proof.
  unfold data_of. induction l as [|x l IH]; simpl; [reflexivity|].
  destruct (eqb_eaddr (lf_ent x) e && N.eqb (lf_id x) f) eqn:Ek; simpl.
  - destruct (eqb_eaddr (lf_ent x) e' && N.eqb (lf_id x) f') eqn:Ek'; [|exact IH].
    apply andb_true_iff in Ek, Ek'. destruct Ek as [A1 A2], Ek' as [B1 B2].
    apply eqb_eaddr_eq in A1, B1. apply N.eqb_eq in A2, B2.
    assert (E1 : eqb_eaddr e' e = true) by (apply eqb_eaddr_eq; congruence).
    assert (E2 : N.eqb f' f = true) by (apply N.eqb_eq; congruence).
    rewrite E1, E2. reflexivity.
  - destruct (eqb_eaddr (lf_ent x) e' && N.eqb (lf_id x) f') eqn:Ek'; [|exact IH].
    apply andb_true_iff in Ek'. destruct Ek' as [B1 B2]. apply eqb_eaddr_eq in B1. apply N.eqb_eq in B2.
    subst e' f'. rewrite Ek. reflexivity.
Qed.

Lemma storeok_set s e f fn v st lf :
  find_lfeat s e (Some f) = Some lf -> StoreOK (lfeats s) st ->
  StoreOK (lfeats (upd_lfeat s e f (fun x => set_data x fn v))) (sset st (e, f, fn) v).
Proof.
  intros Hf Hs e' f'. unfold upd_lfeat. simpl lfeats. rewrite data_of_set.
  specialize (Hs e' f'). destruct (data_of (lfeats s) e' f') as [d|] eqn:Ed.
  - intros fn'. rewrite sget_sset.
    change (eqb_skey (e', f', fn') (e, f, fn)) with (eqb_eaddr e' e && N.eqb f' f && N.eqb fn' fn).
    destruct (eqb_eaddr e' e && N.eqb f' f); cbn [andb].
    + rewrite assoc_set. destruct (N.eqb fn' fn); [reflexivity | apply Hs].
    + apply Hs.
  - intros fn'. rewrite sget_sset.
    change (eqb_skey (e', f', fn') (e, f, fn)) with (eqb_eaddr e' e && N.eqb f' f && N.eqb fn' fn).
    destruct (eqb_eaddr e' e && N.eqb f' f) eqn:Ek; cbn [andb]; [|apply Hs].
    exfalso. apply andb_true_iff in Ek. destruct Ek as [A1 A2]. apply eqb_eaddr_eq in A1. apply N.eqb_eq in A2. subst.
    rewrite (data_of_find _ _ _ _ Hf) in Ed. discriminate.
Qed.

(* a new feature without data, appended *)
Lemma storeok_snoc l x st : lf_data x = [] -> StoreOK l st -> StoreOK (l ++ [x]) st.
Proof.
  intros Hx Hs e f. specialize (Hs e f). unfold data_of in *. rewrite find_app'.
  destruct (find _ l) as [lf|]; [exact Hs|]. simpl.
  destruct (eqb_eaddr (lf_ent x) e && N.eqb (lf_id x) f); [|exact Hs].
  intros fn. rewrite Hx. simpl. symmetry. apply Hs.
Qed.

(* ---------- teardown and discovery keep the data ---------- *)
Lemma kd_clean_entity s d a : map kd (lfeats (clean_entity_caches s d a)) = map kd (lfeats s).
Proof. unfold clean_entity_caches. destruct d; [|reflexivity]. simpl. apply kd_map. reflexivity. Qed.

Lemma kd_clean_device s d : map kd (lfeats (clean_device_caches s d)) = map kd (lfeats s).
Proof. unfold clean_device_caches. destruct d; [|reflexivity]. simpl. apply kd_map. reflexivity. Qed.

Lemma remove_entity_kd s p a s' evs : remove_entity s p a = (s', evs) -> map kd (lfeats s') = map kd (lfeats s).
Proof.
  intros H. rewrite remove_entity_unfold in H. destruct (find_peer s p) as [pe|]; [|inversion H; reflexivity].
  destruct (find_rent pe a) as [en|]; [|inversion H; reflexivity].
  cbv zeta in H. unfold remove_for_entity in H. inversion H; subst. rewrite kd_clean_entity. reflexivity.
Qed.

Lemma remove_unlisted_kd listed es : forall s p s' evs,
  remove_unlisted s p listed es = (s', evs) -> map kd (lfeats s') = map kd (lfeats s).
Proof.
  induction es as [|a r IH]; intros s p s' evs H.
  - simpl in H. inversion H; reflexivity.
  - simpl in H. destruct (existsb (eqb_eaddr a) listed || eqb_eaddr a [0%N]); [exact (IH _ _ _ _ H)|].
    destruct (remove_entity s p a) as [s1 evs1] eqn:E1.
    destruct (remove_unlisted s1 p listed r) as [s2 evs2] eqn:E2.
    inversion H; subst. rewrite (IH _ _ _ _ E2). exact (remove_entity_kd _ _ _ _ _ E1).
Qed.

Lemma notify_entries_kd l : forall s p m s' evs err,
  notify_entries s p m l = (s', evs, err) -> map kd (lfeats s') = map kd (lfeats s).
Proof.
  induction l as [|de r IH]; intros s p m s' evs err H.
  - simpl in H. inversion H; reflexivity.
  - rewrite notify_entries_cons in H. destruct (de_state de) as [[|]|]; [| |inversion H; reflexivity].
    + destruct (find_peer s p) as [pe|]; [|inversion H; reflexivity].
      destruct (negb (check_entity pe de)); [inversion H; reflexivity|].
      destruct (add_entities pe m [de]) as [pe1 created].
      destruct (notify_entries (set_peer s pe1) p m r) as [[s2 evs2] err2] eqn:Er.
      inversion H; subst. exact (IH _ _ _ _ _ _ Er).
    + destruct (find_peer s p) as [pe|]; [|inversion H; reflexivity].
      destruct (negb (check_removed pe de)); [inversion H; reflexivity|].
      destruct (remove_entity s p (de_addr de)) as [s1 evs1] eqn:E1.
      destruct (notify_entries s1 p m r) as [[s2 evs2] err2] eqn:Er.
      inversion H; subst. rewrite (IH _ _ _ _ _ _ Er). exact (remove_entity_kd _ _ _ _ _ E1).
Qed.

Lemma handle_device_added_kd s1 p pe pe1 l0 :
  map kd (lfeats (handle_device_added s1 p pe pe1 l0)) = map kd (lfeats s1).
Proof.
  unfold handle_device_added.
  set (s1a := if reply_completes pe pe1 then _ else s1).
  assert (H1a : lfeats s1a = lfeats s1).
  { unfold s1a. destruct (reply_completes pe pe1); [|reflexivity]. destruct l0; reflexivity. }
  assert (Hu : forall d0, map kd (lfeats (upd_lfeat s1a [0%N] 0 (add_client_ref true (nm_addr (Some d0))))) = map kd (lfeats s1)).
  { intros d0. rewrite kd_upd by (intros x; reflexivity). rewrite H1a. reflexivity. }
  destruct (match remote_feature pe (nm_addr None) with Some (_, rf) => rf_dev rf | None => None end) as [d0|].
  - destruct (peer_by_addr s1a d0); [apply Hu | rewrite H1a; reflexivity].
  - destruct (p_addr pe1) as [d1|]; [|rewrite H1a; reflexivity]. destruct (peer_by_addr s1a d1); [apply Hu | rewrite H1a; reflexivity].
Qed.

Lemma disconnect_kd s p : map kd (lfeats (fst (disconnect s p))) = map kd (lfeats s).
Proof.
  unfold disconnect. destruct (find_peer s p) as [pe|]; [|reflexivity].
  rewrite remove_all_unfold.
  pose proof (fold_F1 pe (p_ents pe) s [] quiet_evs_nil) as H1.
  destruct (fold_left (F1 pe) (p_ents pe) (s, [])) as [s1 ev1].
  destruct H1 as [_ [_ [Hlf1 [_ Hq1]]]].
  pose proof (fold_F2 pe (p_ents pe) s1 ev1 Hq1) as H2.
  destruct (fold_left (F2 pe) (p_ents pe) (s1, ev1)) as [s2 ev2].
  destruct H2 as [_ [_ [Hlf2 _]]]. simpl fst. rewrite kd_clean_device. simpl. rewrite Hlf2, Hlf1. reflexivity.
Qed.

(* operations that leave the data of every local feature alone *)
Definition data_neutral (o : op) : bool :=
  match o with
  | AddLocalFeature _ _ _ | SetData _ _ _ _ | Write _ _ _ _ _ _ _ => false
  | _ => true
  end.

Lemma registry_call_kd s p ctr ack c (f : st -> peer -> reg_call -> st * list obs * bool) :
  (forall s pe c, lfeats (fst (fst (f s pe c))) = lfeats s) ->
  lfeats (fst (registry_call s p ctr ack c f)) = lfeats s.
Proof.
  intros Hf. rewrite registry_call_eq. destruct (sender_known s p) as [pe|]; [|reflexivity].
  specialize (Hf s pe c). destruct (f s pe c) as [[s1 evs] err]. exact Hf.
Qed.

Lemma neutral_ops_kd s o : data_neutral o = true -> map kd (lfeats (fst (step s o))) = map kd (lfeats s).
Proof.
  destruct o; simpl data_neutral; try discriminate; intros _; cbn [step].
  - (* AddLocalEntity *) destruct (existsb _ (lents s)); reflexivity.
  - (* AddFunction *) simpl fst. apply kd_upd. intros x. destruct (eqb_role (lf_role x) RClient); [reflexivity|].
    destruct (assoc_N fn (lf_ops x)); reflexivity.
  - (* Connect *)
    pose proof (disconnect_kd s p) as Hd. destruct (find_peer s p).
    + destruct (disconnect s p) as [s0 evs]. simpl in *. exact Hd.
    + reflexivity.
  - (* DiscoveryReply *)
    unfold with_source. destruct (find_peer s p) as [pe|]; [|reflexivity].
    destruct (remote_feature pe (nm_addr None)); [|reflexivity].
    destruct (add_entities _ m (dm_ents m)) as [pe1 created].
    destruct (remove_unlisted _ p _ _) as [s3 evs] eqn:Eu. simpl fst.
    rewrite (remove_unlisted_kd _ _ _ _ _ _ Eu), handle_device_added_kd. reflexivity.
  - (* DiscoveryNotify *)
    unfold with_source. destruct (find_peer s p) as [pe|]; [|reflexivity].
    destruct (remote_feature pe (nm_addr None)); [|reflexivity].
    destruct (dm_ents m) as [|d0 dr] eqn:Edm; [reflexivity|].
    rewrite <- Edm. destruct (notify_entries s p m (dm_ents m)) as [[s1 evs] err] eqn:En.
    simpl fst. exact (notify_entries_kd _ _ _ _ _ _ _ En).
  - (* SubCall *)
    f_equal. apply registry_call_kd. intros s0 pe c0.
    pose proof (add_subscription_effect s0 pe c0) as H. destruct (add_subscription s0 pe c0) as [[s1 evs] err]. simpl. tauto.
  - (* SubDelete *)
    f_equal. apply registry_call_kd. intros s0 pe c0.
    pose proof (remove_subscription_effect s0 pe c0) as H. destruct (remove_subscription s0 pe c0) as [[s1 evs] err]. simpl. tauto.
  - (* BindCall *)
    f_equal. apply registry_call_kd. intros s0 pe c0.
    pose proof (add_binding_effect s0 pe c0) as H. destruct (add_binding s0 pe c0) as [[s1 evs] err]. simpl. tauto.
  - (* BindDelete *)
    f_equal. apply registry_call_kd. intros s0 pe c0.
    pose proof (remove_binding_effect s0 pe c0) as H. destruct (remove_binding s0 pe c0) as [[s1 evs] err]. simpl. tauto.
  - (* Disconnect *) apply disconnect_kd.
  - reflexivity.
  - reflexivity.
  - (* LocalSubscribe *)
    unfold local_request. destruct (find_lfeat s e (Some f)) as [lf|]; [|reflexivity].
    destruct (fa_dev r); [|reflexivity]. destruct (peer_by_addr s n); [|reflexivity].
    destruct (eqb_role (lf_role lf) RServer); [reflexivity|]. simpl fst. apply kd_upd. intros x. reflexivity.
  - (* LocalBind *)
    unfold local_request. destruct (find_lfeat s e (Some f)) as [lf|]; [|reflexivity].
    destruct (fa_dev r); [|reflexivity]. destruct (peer_by_addr s n); [|reflexivity].
    destruct (eqb_role (lf_role lf) RServer); [reflexivity|]. simpl fst. apply kd_upd. intros x. reflexivity.
  - destruct (find_lfeat s e (Some f)); reflexivity.
  - destruct (find_lfeat s e (Some f)); reflexivity.
  - destruct (find_lfeat s e (Some f)) as [lf|]; [destruct (assoc_N fn (lf_data lf))|]; reflexivity.
  - reflexivity.
  - (* LocalUnsubscribe *)
    unfold local_unrequest. destruct (find_lfeat s e (Some f)) as [lf|]; [|reflexivity].
    destruct (fa_dev r); [|reflexivity]. destruct (peer_by_addr s n); [|reflexivity].
    simpl fst. apply kd_upd. intros x. reflexivity.
  - (* LocalUnbind *)
    unfold local_unrequest. destruct (find_lfeat s e (Some f)) as [lf|]; [|reflexivity].
    destruct (fa_dev r); [|reflexivity]. destruct (peer_by_addr s n); [|reflexivity].
    simpl fst. apply kd_upd. intros x. reflexivity.
Qed.

(* ---------- the write gate in closed form ---------- *)
Definition deny_out (p ctr : N) (src dst : faddr) (d : option N) : list obs := [result_to p ctr true src dst d].

Lemma write_eq s p ctr ack src dst fn v :
  step s (Write p ctr ack src dst fn v) =
  match find_peer s p with
  | None => (s, [])
  | Some pe =>
      match remote_feature pe src with
      | None => (s, [])
      | Some (en, rf) =>
          match local_feature s dst with
          | None => (s, deny_out p ctr src dst (fa_dev dst))
          | Some lf =>
              if writable lf fn && has_binding s lf (rf_addr en rf) then
                if fn_registered (lf_type lf) fn then
                  (upd_lfeat s (lf_ent lf) (lf_id lf) (fun x => set_data x fn v),
                   notify_subscribers s lf fn v ++
                   [OEvent EvData ChUpdate p (Some (fa_ent (rf_addr en rf))) (Some (rf_addr en rf)) (Some (lf_addr lf))] ++
                   (if ack then [result_to p ctr false src dst (Some LOCAL_DEV)] else []))
                else (s, deny_out p ctr src dst (Some LOCAL_DEV))
              else (s, deny_out p ctr src dst (Some LOCAL_DEV))
          end
      end
  end.
Proof.
  cbn [step]. unfold with_source, writable, deny_out.
  destruct (find_peer s p) as [pe|]; [|reflexivity].
  destruct (remote_feature pe src) as [[en rf]|]; [|reflexivity].
  destruct (local_feature s dst) as [lf|]; [|reflexivity].
  destruct (assoc_N fn (lf_ops lf)) as [[rd [|]]|]; try reflexivity.
  destruct (has_binding s lf (rf_addr en rf)); simpl; [|reflexivity].
  destruct (fn_registered (lf_type lf) fn); reflexivity.
Qed.

Lemma existsb_filter {A} (P Q : A -> bool) l : existsb P (filter Q l) = existsb (fun x => Q x && P x) l.
Proof.
  induction l as [|x l IH]; simpl; [reflexivity|]. destruct (Q x); simpl; rewrite IH; reflexivity.
Qed.

Lemma bound_eq s lf writer : bound (abs (binds s)) lf writer = has_binding s lf writer.
Proof.
  unfold bound, has_binding, bindings_on. rewrite existsb_filter.
  apply existsb_abs. intros x. rewrite on_srv_strip. reflexivity.
Qed.

Lemma notify_all_notify s sf fn v : forall o, In o (notify_subscribers s sf fn v) -> is_notify o = true.
Proof. unfold notify_subscribers. intros o H. apply in_map_iff in H. destruct H as [x [<- _]]. reflexivity. Qed.

Lemma notify_no_evdata s sf fn v : filter is_ev_data (notify_subscribers s sf fn v) = [].
Proof. unfold notify_subscribers. induction (filter _ (subs s)) as [|x l IH]; simpl; [reflexivity | exact IH]. Qed.

Lemma notify_no_results s sf fn v : results (notify_subscribers s sf fn v) = [].
Proof. unfold notify_subscribers. induction (filter _ (subs s)) as [|x l IH]; simpl; [reflexivity | exact IH]. Qed.

Lemma refused_deny p ctr src dst d : refused p ctr (deny_out p ctr src dst d) = [].
Proof. unfold refused, deny_out, no_notify, no_data_event. simpl. rewrite !N.eqb_refl. reflexivity. Qed.

(* ---------- the invariant ---------- *)
Record Inv (s : st) (m : mst) : Prop := {
  inv_w : w m = s;
  inv_auth : auth m = abs (binds s);
  inv_store : StoreOK (lfeats s) (store m);
  inv_b : BInv s
}.

Lemma storeok_empty l : (forall x, In x l -> lf_data x = []) -> StoreOK l [].
Proof.
  intros H e f. unfold data_of. destruct (find _ l) as [lf|] eqn:Ef; [|reflexivity].
  apply find_some in Ef. rewrite (H lf (proj1 Ef)). reflexivity.
Qed.

Lemma inv_init : Inv init minit.
Proof.
  constructor; [reflexivity | reflexivity | | exact binv_init].
  apply storeok_empty. intros x [<-|[<-|[]]]; reflexivity.
Qed.

Lemma granted_call p ctr ack err src dst : granted_seen (call_result p ctr ack err src dst) = [].
Proof. unfold call_result. destruct err; [reflexivity|]. destruct ack; reflexivity. Qed.

Lemma revoked_call p ctr ack err src dst : revoked_seen (call_result p ctr ack err src dst) = [].
Proof. unfold call_result. destruct err; [reflexivity|]. destruct ack; reflexivity. Qed.

Lemma revoke_nil a : revoke [] a = a.
Proof. unfold revoke. apply filter_all. reflexivity. Qed.

Lemma srv_key_lf sf : srv_key (lf_addr sf) = srv_of sf.
Proof. reflexivity. Qed.

Lemma step_inv s m o : Inv s m ->
  let '(m1, v) := mon m o (snd (step s o)) in
  v = [] /\ Inv (fst (step s o)) m1.
Proof.
  intros I. pose proof (inv_w _ _ I) as Hw. pose proof (si_ok _ (bi_s _ (inv_b _ _ I))) as Hok.
  pose proof (binv_step s o (inv_b _ _ I)) as Hb1.
  destruct o.
  - (* AddLocalEntity *)
    cbn [mon]. unfold advance. rewrite Hw. split; [reflexivity|].
    pose proof (neutral_ops_frame s (AddLocalEntity e) eq_refl) as Hf.
    pose proof (neutral_ops_kd s (AddLocalEntity e) eq_refl) as Hk.
    destruct (step s (AddLocalEntity e)) as [s1 out]. destruct Hf as [[Hbb _] _]. simpl fst in *.
    constructor; simpl; [reflexivity | rewrite Hbb; exact (inv_auth _ _ I) | exact (storeok_kd _ _ _ Hk (inv_store _ _ I)) | exact Hb1].
  - (* AddLocalFeature *)
    cbn [mon]. unfold advance. rewrite Hw. clear Hw. split; [reflexivity|].
    pose proof (neutral_ops_frame s (AddLocalFeature e t r) eq_refl) as Hf.
    cbn [step] in *.
    destruct (find (fun le => eqb_eaddr (le_addr le) e) (lents s)) as [le|].
    2:{ cbn [fst] in *. constructor; cbn [w auth store]; [reflexivity | exact (inv_auth _ _ I) | exact (inv_store _ _ I) | exact Hb1]. }
    destruct Hf as [[Hbb _] _]. cbn [fst] in *.
    constructor; cbn [w auth store]; [reflexivity | rewrite Hbb; exact (inv_auth _ _ I) | | exact Hb1].
    cbn [lfeats]. destruct (existsb _ (lfeats s)); [exact (inv_store _ _ I)|].
    apply storeok_snoc; [reflexivity | exact (inv_store _ _ I)].
  - (* AddFunction *)
    cbn [mon]. unfold advance. rewrite Hw. split; [reflexivity|].
    pose proof (neutral_ops_frame s (AddFunction e f fn rd wr) eq_refl) as Hf.
    pose proof (neutral_ops_kd s (AddFunction e f fn rd wr) eq_refl) as Hk.
    destruct (step s (AddFunction e f fn rd wr)) as [s1 out]. destruct Hf as [[Hbb _] _]. simpl fst in *.
    constructor; simpl; [reflexivity | rewrite Hbb; exact (inv_auth _ _ I) | exact (storeok_kd _ _ _ Hk (inv_store _ _ I)) | exact Hb1].
  - (* Connect *)
    cbn [mon]. unfold advance. rewrite Hw. split; [reflexivity|].
    pose proof (neutral_ops_kd s (Connect p) eq_refl) as Hk.
    constructor; cbn [w auth store]; [reflexivity | | exact (storeok_kd _ _ _ Hk (inv_store _ _ I)) | exact Hb1].
    rewrite (inv_auth _ _ I), drop_peer_abs, connect_binds by exact Hok. reflexivity.
  - (* DiscoveryReply *)
    cbn [mon]. unfold advance. rewrite Hw. split; [reflexivity|].
    pose proof (neutral_ops_kd s (DiscoveryReply p m0) eq_refl) as Hk.
    constructor; cbn [w auth store]; [reflexivity | | exact (storeok_kd _ _ _ Hk (inv_store _ _ I)) | exact Hb1].
    rewrite (inv_auth _ _ I), after_reply_abs, discovery_reply_binds by exact Hok. reflexivity.
  - (* DiscoveryNotify *)
    cbn [mon]. unfold advance. rewrite Hw. split; [reflexivity|].
    pose proof (neutral_ops_kd s (DiscoveryNotify p ctr ack m0) eq_refl) as Hk.
    constructor; cbn [w auth store]; [reflexivity | | exact (storeok_kd _ _ _ Hk (inv_store _ _ I)) | exact Hb1].
    rewrite (inv_auth _ _ I), drop_gone_abs, gone_seen_eq, discovery_notify_binds by exact Hok. reflexivity.
  - (* SubCall *)
    cbn [mon]. unfold advance. rewrite Hw. split; [reflexivity|].
    pose proof (neutral_ops_frame s (SubCall p ctr ack c) eq_refl) as Hf.
    pose proof (neutral_ops_kd s (SubCall p ctr ack c) eq_refl) as Hk.
    destruct (step s (SubCall p ctr ack c)) as [s1 out]. destruct Hf as [[Hbb _] _]. simpl fst in *.
    constructor; simpl; [reflexivity | rewrite Hbb; exact (inv_auth _ _ I) | exact (storeok_kd _ _ _ Hk (inv_store _ _ I)) | exact Hb1].
  - (* SubDelete *)
    cbn [mon]. unfold advance. rewrite Hw. split; [reflexivity|].
    pose proof (neutral_ops_frame s (SubDelete p ctr ack c) eq_refl) as Hf.
    pose proof (neutral_ops_kd s (SubDelete p ctr ack c) eq_refl) as Hk.
    destruct (step s (SubDelete p ctr ack c)) as [s1 out]. destruct Hf as [[Hbb _] _]. simpl fst in *.
    constructor; simpl; [reflexivity | rewrite Hbb; exact (inv_auth _ _ I) | exact (storeok_kd _ _ _ Hk (inv_store _ _ I)) | exact Hb1].
  - (* BindCall *)
    cbn [mon]. unfold advance. rewrite Hw. split; [reflexivity|].
    pose proof (neutral_ops_kd s (BindCall p ctr ack c) eq_refl) as Hk.
    constructor; cbn [w auth store]; [reflexivity | | exact (storeok_kd _ _ _ Hk (inv_store _ _ I)) | exact Hb1].
    cbn [step]. rewrite registry_call_eq. destruct (sender_known s p) as [pe|] eqn:Esk.
    2:{ simpl. rewrite app_nil_r. exact (inv_auth _ _ I). }
    rewrite add_binding_eq. destruct (bind_grant s pe c) as [[[sf en] cli]|].
    + cbn [fst snd]. unfold granted_seen. rewrite flat_map_app. fold (granted_seen (call_result p ctr ack false (nm_addr (p_addr pe)) (nm_addr (Some LOCAL_DEV)))).
      rewrite granted_call, app_nil_r. simpl. rewrite (inv_auth _ _ I). unfold abs. rewrite map_app. reflexivity.
    + cbn [fst snd app]. rewrite granted_call, app_nil_r. exact (inv_auth _ _ I).
  - (* BindDelete *)
    cbn [mon]. unfold advance. rewrite Hw. split; [reflexivity|].
    pose proof (neutral_ops_kd s (BindDelete p ctr ack c) eq_refl) as Hk.
    constructor; cbn [w auth store]; [reflexivity | | exact (storeok_kd _ _ _ Hk (inv_store _ _ I)) | exact Hb1].
    cbn [step]. rewrite registry_call_eq. destruct (sender_known s p) as [pe|] eqn:Esk.
    2:{ simpl. rewrite revoke_nil. exact (inv_auth _ _ I). }
    rewrite remove_binding_eq. unfold bind_del.
    destruct (remote_feature pe (rc_cli c)) as [[en rf]|];
      [|cbn [fst snd app]; rewrite revoked_call, revoke_nil; exact (inv_auth _ _ I)].
    destruct (local_feature s (rc_srv c)) as [sf|];
      [|cbn [fst snd app]; rewrite revoked_call, revoke_nil; exact (inv_auth _ _ I)].
    rewrite <- andb_assoc.
    rewrite (del_tests s sf (p_ski pe) (default_dev pe (rc_cli c)) (rf_addr en rf) (bi_single _ (inv_b _ _ I))).
    destruct (role_type_ok (lf_role sf) (lf_type sf) RServer (lf_type sf)); cbn [andb];
      [|cbn [fst snd app]; rewrite revoked_call, revoke_nil; exact (inv_auth _ _ I)].
    destruct (eqb_faddr (default_dev pe (rc_cli c)) (rf_addr en rf)) eqn:Eown; cbn [andb];
      [|cbn [fst snd app]; rewrite revoked_call, revoke_nil; exact (inv_auth _ _ I)].
    destruct (existsb (hit_e (p_ski pe) (default_dev pe (rc_cli c)) sf) (binds s));
      [|cbn [fst snd app]; rewrite revoked_call, revoke_nil; exact (inv_auth _ _ I)].
    cbn [fst snd]. unfold revoked_seen. rewrite flat_map_app.
    fold (revoked_seen (call_result p ctr ack false (nm_addr (p_addr pe)) (nm_addr (Some LOCAL_DEV)))).
    rewrite revoked_call, app_nil_r. simpl flat_map. unfold revoke. simpl binds.
    rewrite (inv_auth _ _ I). apply filter_abs. intros x. simpl existsb. rewrite orb_false_r.
    apply eqb_faddr_eq in Eown. rewrite <- Eown. rewrite srv_key_lf, hit_strip. reflexivity.
  - (* SetData *)
    cbn [mon]. unfold advance. rewrite Hw. clear Hw. split; [reflexivity|].
    pose proof (neutral_ops_frame s (SetData e f fn v) eq_refl) as Hf.
    cbn [step] in *.
    destruct (find_lfeat s e (Some f)) as [lf|] eqn:Ef.
    2:{ cbn [fst] in *. constructor; cbn [w auth store]; [reflexivity | exact (inv_auth _ _ I) | exact (inv_store _ _ I) | exact Hb1]. }
    destruct (fn_registered (lf_type lf) fn).
    + destruct Hf as [[Hbb _] _]. cbn [fst] in *.
      constructor; cbn [w auth store]; [reflexivity | rewrite Hbb; exact (inv_auth _ _ I) | | exact Hb1].
      exact (storeok_set s e f fn v (store m) lf Ef (inv_store _ _ I)).
    + cbn [fst] in *. constructor; cbn [w auth store]; [reflexivity | exact (inv_auth _ _ I) | exact (inv_store _ _ I) | exact Hb1].
  - (* Write *)
    cbn [mon]. unfold advance. rewrite Hw. rewrite write_eq in *.
    assert (Isame : forall st', st' = store m -> Inv s {| w := s; auth := auth m; store := st' |}).
    { intros st' ->. constructor; simpl; [reflexivity | exact (inv_auth _ _ I) | exact (inv_store _ _ I) | exact (inv_b _ _ I)]. }
    destruct (find_peer s p) as [pe|]; [|simpl; split; [reflexivity | apply Isame; reflexivity]].
    destruct (remote_feature pe src) as [[en rf]|]; [|simpl; split; [reflexivity | apply Isame; reflexivity]].
    destruct (local_feature s dst) as [lf|] eqn:Elf.
    2:{ cbn [fst snd]. split; [apply refused_deny | apply Isame; reflexivity]. }
    rewrite <- (bound_eq s lf (rf_addr en rf)), <- (inv_auth _ _ I) in *.
    destruct (writable lf fn && bound (auth m) lf (rf_addr en rf)).
    2:{ cbn [fst snd]. split; [apply refused_deny | apply Isame; reflexivity]. }
    destruct (fn_registered (lf_type lf) fn).
    + cbn [fst snd] in *. split.
      * rewrite !filter_app, notify_no_evdata, !results_app, notify_no_results.
        simpl filter at 1. simpl results at 1. cbn [app].
        assert (E1 : filter is_ev_data (if ack then [result_to p ctr false src dst (Some LOCAL_DEV)] else []) = [])
          by (destruct ack; reflexivity).
        rewrite E1. cbn [eqb_list]. rewrite eqb_obs_event_refl. cbn [andb check app].
        destruct ack; simpl; rewrite ?N.eqb_refl; reflexivity.
      * constructor; simpl; [reflexivity | exact (inv_auth _ _ I) | | exact Hb1].
        assert (Hfl : find_lfeat s (lf_ent lf) (Some (lf_id lf)) = Some lf).
        { unfold local_feature in Elf. destruct (existsb _ (lents s)); [|discriminate].
          destruct (fa_feat dst) as [fd|]; [|discriminate].
          destruct (find_lfeat_key _ _ _ _ Elf) as [E1 E2]. rewrite E1, E2. exact Elf. }
        exact (storeok_set s (lf_ent lf) (lf_id lf) fn v (store m) lf Hfl (inv_store _ _ I)).
    + cbn [fst snd]. split; [reflexivity|]. apply Isame. reflexivity.
  - (* Disconnect *)
    cbn [mon]. unfold advance. rewrite Hw. split; [reflexivity|].
    pose proof (neutral_ops_kd s (Disconnect p) eq_refl) as Hk.
    constructor; cbn [w auth store]; [reflexivity | | exact (storeok_kd _ _ _ Hk (inv_store _ _ I)) | exact Hb1].
    rewrite (inv_auth _ _ I), drop_peer_abs, disconnect_binds by exact Hok. reflexivity.
  - (* ListSubs *)
    cbn [mon]. unfold advance. rewrite Hw. split; [reflexivity|]. cbn [step]. simpl.
    constructor; simpl; [reflexivity | exact (inv_auth _ _ I) | exact (inv_store _ _ I) | exact (inv_b _ _ I)].
  - (* ListBinds *)
    cbn [mon]. unfold advance. rewrite Hw. split; [reflexivity|]. cbn [step]. simpl.
    constructor; simpl; [reflexivity | exact (inv_auth _ _ I) | exact (inv_store _ _ I) | exact (inv_b _ _ I)].
  - (* LocalSubscribe *)
    cbn [mon]. unfold advance. rewrite Hw. split; [reflexivity|].
    pose proof (neutral_ops_frame s (LocalSubscribe e f r) eq_refl) as Hf.
    pose proof (neutral_ops_kd s (LocalSubscribe e f r) eq_refl) as Hk.
    destruct (step s (LocalSubscribe e f r)) as [s1 out]. destruct Hf as [[Hbb _] _]. simpl fst in *.
    constructor; simpl; [reflexivity | rewrite Hbb; exact (inv_auth _ _ I) | exact (storeok_kd _ _ _ Hk (inv_store _ _ I)) | exact Hb1].
  - (* LocalBind *)
    cbn [mon]. unfold advance. rewrite Hw. split; [reflexivity|].
    pose proof (neutral_ops_frame s (LocalBind e f r) eq_refl) as Hf.
    pose proof (neutral_ops_kd s (LocalBind e f r) eq_refl) as Hk.
    destruct (step s (LocalBind e f r)) as [s1 out]. destruct Hf as [[Hbb _] _]. simpl fst in *.
    constructor; simpl; [reflexivity | rewrite Hbb; exact (inv_auth _ _ I) | exact (storeok_kd _ _ _ Hk (inv_store _ _ I)) | exact Hb1].
  - (* HasLocalSub *)
    cbn [mon]. unfold advance. rewrite Hw. split; [reflexivity|]. cbn [step].
    destruct (find_lfeat s e (Some f)); simpl;
      constructor; simpl; [reflexivity | exact (inv_auth _ _ I) | exact (inv_store _ _ I) | exact (inv_b _ _ I)
                          | reflexivity | exact (inv_auth _ _ I) | exact (inv_store _ _ I) | exact (inv_b _ _ I)].
  - (* HasLocalBind *)
    cbn [mon]. unfold advance. rewrite Hw. split; [reflexivity|]. cbn [step].
    destruct (find_lfeat s e (Some f)); simpl;
      constructor; simpl; [reflexivity | exact (inv_auth _ _ I) | exact (inv_store _ _ I) | exact (inv_b _ _ I)
                          | reflexivity | exact (inv_auth _ _ I) | exact (inv_store _ _ I) | exact (inv_b _ _ I)].
  - (* ReadData *)
    cbn [mon]. unfold advance. rewrite Hw.
    assert (Isame : Inv s {| w := s; auth := auth m; store := store m |}).
    { constructor; simpl; [reflexivity | exact (inv_auth _ _ I) | exact (inv_store _ _ I) | exact (inv_b _ _ I)]. }
    pose proof (inv_store _ _ I e f) as Hst. cbn [step].
    destruct (find_lfeat s e (Some f)) as [lf|] eqn:Ef.
    + rewrite (data_of_find _ _ _ _ Ef) in Hst. cbn [fst snd]. rewrite <- (Hst fn).
      destruct (assoc_N fn (lf_data lf)); simpl; rewrite ?N.eqb_refl; split; try reflexivity; exact Isame.
    + rewrite (data_of_find_none _ _ _ Ef) in Hst. cbn [fst snd]. rewrite (Hst fn). split; [reflexivity | exact Isame].
  - (* Resolve *)
    cbn [mon]. unfold advance. rewrite Hw. split; [reflexivity|]. cbn [step]. simpl.
    constructor; simpl; [reflexivity | exact (inv_auth _ _ I) | exact (inv_store _ _ I) | exact (inv_b _ _ I)].
  - (* LocalUnsubscribe *)
    cbn [mon]. unfold advance. rewrite Hw. split; [reflexivity|].
    pose proof (neutral_ops_frame s (LocalUnsubscribe e f r) eq_refl) as Hf.
    pose proof (neutral_ops_kd s (LocalUnsubscribe e f r) eq_refl) as Hk.
    destruct (step s (LocalUnsubscribe e f r)) as [s1 out]. destruct Hf as [[Hbb _] _]. simpl fst in *.
    constructor; simpl; [reflexivity | rewrite Hbb; exact (inv_auth _ _ I) | exact (storeok_kd _ _ _ Hk (inv_store _ _ I)) | exact Hb1].
  - (* LocalUnbind *)
    cbn [mon]. unfold advance. rewrite Hw. split; [reflexivity|].
    pose proof (neutral_ops_frame s (LocalUnbind e f r) eq_refl) as Hf.
    pose proof (neutral_ops_kd s (LocalUnbind e f r) eq_refl) as Hk.
    destruct (step s (LocalUnbind e f r)) as [s1 out]. destruct Hf as [[Hbb _] _]. simpl fst in *.
    constructor; simpl; [reflexivity | rewrite Hbb; exact (inv_auth _ _ I) | exact (storeok_kd _ _ _ Hk (inv_store _ _ I)) | exact Hb1].
Qed.

Theorem run_accepted_from ops : forall s m, Inv s m -> accepted (judge m (snd (run s ops))) = true.
Proof.
  induction ops as [|o ops IH]; intros s m I; [reflexivity|].
  simpl. pose proof (step_inv s m o I) as Hs.
  destruct (step s o) as [s1 out]. destruct (run s1 ops) as [s2 tr] eqn:Er. simpl in *.
  destruct (mon m o out) as [m1 v]. destruct Hs as [Hv I1]. subst v. simpl.
  specialize (IH s1 m1 I1). rewrite Er in IH. exact IH.
Qed.

Theorem run_accepted ops : accepted (judge minit (snd (run init ops))) = true.
Proof. apply run_accepted_from. exact inv_init. Qed.

(* ---------- explicit corollaries ---------- *)
(* the monitor state after a trace *)
Fixpoint mfinal (m : mst) (tr : list (op * list obs)) : mst :=
  match tr with
  | [] => m
  | (o, out) :: r => mfinal (fst (mon m o out)) r
  end.

Theorem inv_final ops : forall s m, Inv s m -> Inv (fst (run s ops)) (mfinal m (snd (run s ops))).
Proof.
  induction ops as [|o ops IH]; intros s m I; [exact I|].
  simpl. pose proof (step_inv s m o I) as Hs.
  destruct (step s o) as [s1 out]. simpl in Hs. destruct (mon m o out) as [m1 v] eqn:Em. destruct Hs as [_ I1].
  specialize (IH s1 m1 I1). destruct (run s1 ops) as [s2 tr]. simpl in *. rewrite Em. exact IH.
Qed.

(* authorisation follows the registry: after every history the code's binding test is the
   test against the registry of observed grants minus observed revocations *)
Theorem gate_follows_registry ops lf writer :
  has_binding (fst (run init ops)) lf writer = bound (auth (mfinal minit (snd (run init ops)))) lf writer.
Proof.
  pose proof (inv_final ops init minit inv_init) as I. rewrite (inv_auth _ _ I). symmetry. apply bound_eq.
Qed.

(* the gate, in any state: an unauthorised write by an announced writer leaves the whole state
   unchanged and produces exactly one error result *)
Theorem gate_closed s p ctr ack src dst fn v pe en rf lf :
  find_peer s p = Some pe -> remote_feature pe src = Some (en, rf) -> local_feature s dst = Some lf ->
  writable lf fn && has_binding s lf (rf_addr en rf) = false ->
  step s (Write p ctr ack src dst fn v) = (s, [result_to p ctr true src dst (Some LOCAL_DEV)]).
Proof. intros H1 H2 H3 H4. rewrite write_eq, H1, H2, H3, H4. reflexivity. Qed.

(* a write changes local data only if it is authorised *)
Theorem data_change_authorised s p ctr ack src dst fn v :
  lfeats (fst (step s (Write p ctr ack src dst fn v))) <> lfeats s ->
  exists pe en rf lf, find_peer s p = Some pe /\ remote_feature pe src = Some (en, rf) /\ local_feature s dst = Some lf /\
                      writable lf fn = true /\ has_binding s lf (rf_addr en rf) = true.
Proof.
  rewrite write_eq. destruct (find_peer s p) as [pe|]; [|intros H; exfalso; apply H; reflexivity].
  destruct (remote_feature pe src) as [[en rf]|] eqn:E2; [|intros H; exfalso; apply H; reflexivity].
  destruct (local_feature s dst) as [lf|] eqn:E3; [|intros H; exfalso; apply H; reflexivity].
  destruct (writable lf fn) eqn:Ew; [|intros H; exfalso; apply H; reflexivity].
  destruct (has_binding s lf (rf_addr en rf)) eqn:Eh; [|intros H; exfalso; apply H; reflexivity].
  simpl. destruct (fn_registered (lf_type lf) fn); [|intros H; exfalso; apply H; reflexivity].
  intros _. exists pe, en, rf, lf. repeat split; assumption || reflexivity.
Qed.

(* an unannounced writer changes nothing and gets nothing *)
Theorem unannounced_dropped s p ctr ack src dst fn v :
  (forall pe, find_peer s p = Some pe -> remote_feature pe src = None) ->
  step s (Write p ctr ack src dst fn v) = (s, []).
Proof.
  intros H. rewrite write_eq. destruct (find_peer s p) as [pe|]; [|reflexivity]. rewrite (H pe eq_refl). reflexivity.
Qed.

(* the assumption "features are identified by address" made explicit: whenever the client
   addresses in the registry determine their connection (true when connected peers announce
   distinct device addresses), the gate's by-address test is the by-connection test *)
Theorem gate_by_connection s lf writer p :
  (forall x, In x (binds s) -> e_cli x = writer -> e_ski x = p) ->
  has_binding s lf writer =
  existsb (fun x => same_srv x lf && N.eqb (e_ski x) p && eqb_faddr (e_cli x) writer) (binds s).
Proof.
  intros H. unfold has_binding, bindings_on. rewrite existsb_filter.
  induction (binds s) as [|x l IH]; simpl; [reflexivity|].
  rewrite IH by (intros y Hy; apply H; now right). f_equal.
  destruct (same_srv x lf); simpl; [|reflexivity].
  destruct (eqb_faddr (e_cli x) writer) eqn:E; [|rewrite andb_false_r; reflexivity].
  apply eqb_faddr_eq in E. rewrite (H x (or_introl eq_refl) E), N.eqb_refl. reflexivity.
Qed.

(* ---------- teardown overlapped by another peer's registry call (Model/StackX.v) ---------- *)
Theorem xrun_accepted ops : xaccepted (xjudge mon minit (snd (xrun init ops))) = true.
Proof. apply (xrun_accepted_from mon Inv step_inv). exact inv_init. Qed.
