(* C10 — the removal events of a teardown (disconnect, entity removal by discovery
   notification) are, up to order, one per registry entry that the teardown removes.
   Generic multiset / permutation facts first. *)
From Coq Require Import Sorting.Permutation.
From Verif Require Import Base.Prelude Model.Stack Spec.StackObs Spec.C10Spec Proofs.StackLemmas Proofs.StackInv.

(* ---------- same_multiset from Permutation ---------- *)
Section Multiset.
  Context {A : Type} (eqb : A -> A -> bool) (ok : A -> Prop).
  Hypothesis eqb_eq : forall a b, eqb a b = true -> a = b.
  Hypothesis eqb_refl : forall a, ok a -> eqb a a = true.

  Lemma remove_first_perm x b : ok x -> In x b ->
    exists b', remove_first eqb x b = Some b' /\ Permutation b (x :: b').
  Proof.
    intros Hx. induction b as [|y r IH]; intros Hin; [destruct Hin|]. simpl.
    destruct (eqb x y) eqn:E.
    - apply eqb_eq in E. subst y. exists r. split; [reflexivity | apply Permutation_refl].
    - destruct Hin as [->|Hin]; [rewrite (eqb_refl _ Hx) in E; discriminate|].
      destruct (IH Hin) as [r' [Hr Hp]]. rewrite Hr. exists (y :: r'). split; [reflexivity|].
      eapply Permutation_trans; [apply perm_skip; exact Hp | apply perm_swap].
  Qed.

  Lemma same_multiset_perm a : forall b, Forall ok a -> Permutation a b -> same_multiset eqb a b = true.
  Proof.
    induction a as [|x a' IH]; intros b Hok Hp.
    - apply Permutation_nil in Hp. subst b. reflexivity.
    - inversion Hok as [|? ? Hx Hok']; subst. simpl.
      assert (Hin : In x b) by (eapply Permutation_in; [exact Hp | now left]).
      destruct (remove_first_perm x b Hx Hin) as [b' [Hr Hpb]]. rewrite Hr.
      apply IH; [exact Hok'|]. apply (Permutation_cons_inv (a := x)).
      eapply Permutation_trans; [exact Hp | exact Hpb].
  Qed.
End Multiset.

Lemma perm_filter {A} (P : A -> bool) a b : Permutation a b -> Permutation (filter P a) (filter P b).
Proof.
  induction 1 as [|x a b Hp IH|x y a|a b c H1 IH1 H2 IH2]; simpl.
  - constructor.
  - destruct (P x); [apply perm_skip|]; exact IH.
  - destruct (P x), (P y); try apply Permutation_refl. apply perm_swap.
  - eapply Permutation_trans; eassumption.
Qed.

Lemma perm_filter_or {A} (P Q : A -> bool) l :
  Permutation (filter (fun x => P x || Q x) l) (filter P l ++ filter (fun x => negb (P x) && Q x) l).
Proof.
  induction l as [|x l IH]; simpl; [constructor|].
  destruct (P x); simpl; [apply perm_skip; exact IH|].
  destruct (Q x); simpl; [|exact IH].
  apply Permutation_cons_app. exact IH.
Qed.

(* ---------- equality of events ---------- *)
Lemma eqb_opt_eq {A} (eqb : A -> A -> bool) (a b : option A) :
  (forall x y, eqb x y = true -> x = y) -> eqb_opt eqb a b = true -> a = b.
Proof. intros H. destruct a, b; simpl; try discriminate; [intros E; f_equal; auto | reflexivity]. Qed.

Lemma eqb_obs_event_eq a b : eqb_obs_event a b = true -> a = b.
Proof.
  destruct a; simpl; try discriminate. destruct b; try discriminate.
  rewrite !andb_true_iff. intros [[[[[Hk Hc] Hs] He] Hf] Hl].
  apply N.eqb_eq in Hs. subst.
  apply (eqb_opt_eq eqb_eaddr) in He; [|intros x y; apply eqb_eaddr_eq].
  apply (eqb_opt_eq eqb_faddr) in Hf; [|intros x y; apply eqb_faddr_eq].
  apply (eqb_opt_eq eqb_faddr) in Hl; [|intros x y; apply eqb_faddr_eq].
  subst. destruct k, k0; try discriminate; destruct c, c0; try discriminate; reflexivity.
Qed.

Lemma eqb_opt_refl' {A} (eqb : A -> A -> bool) o : (forall x, eqb x x = true) -> eqb_opt eqb o o = true.
Proof. intros H. destruct o; simpl; auto. Qed.

Lemma eqb_obs_event_refl a : is_event a = true -> eqb_obs_event a a = true.
Proof.
  destruct a; simpl; try discriminate. intros _. rewrite N.eqb_refl.
  rewrite (eqb_opt_refl' eqb_eaddr ent eqb_eaddr_refl), !(eqb_opt_refl' eqb_faddr _ eqb_faddr_refl).
  destruct k, c; reflexivity.
Qed.

Lemma events_multiset a b :
  Forall (fun o => is_event o = true) a -> Permutation a b -> same_multiset eqb_obs_event a b = true.
Proof. apply same_multiset_perm; [exact eqb_obs_event_eq | exact eqb_obs_event_refl]. Qed.

(* ---------- abstraction of the registries ---------- *)
Definition strip (e : entry) : sentry := {| s_srv := e_srv e; s_ski := e_ski e; s_cli := e_cli e |}.
Definition abs (l : list entry) : list sentry := map strip l.

Lemma filter_abs (P : sentry -> bool) (Q : entry -> bool) l :
  (forall x, P (strip x) = Q x) -> filter P (abs l) = abs (filter Q l).
Proof.
  intros H. induction l as [|x l IH]; simpl; [reflexivity|].
  rewrite H. destruct (Q x); simpl; rewrite IH; reflexivity.
Qed.

(* the removal event owed to an entry *)
Definition ev_of (s : st) (k : evkind) (x : entry) : obs := removal_event s k (strip x).

Lemma map_ev_abs s k l : map (removal_event s k) (abs l) = map (ev_of s k) l.
Proof. unfold abs. rewrite map_map. reflexivity. Qed.

Definition hitE (p : N) (g : list eaddr) (x : entry) : bool :=
  N.eqb (e_ski x) p && existsb (eqb_eaddr (fa_ent (e_cli x))) g.

Lemma hitE_app p g1 g2 x : hitE p (g1 ++ g2) x = hitE p g1 x || hitE p g2 x.
Proof. unfold hitE. rewrite existsb_app. destruct (N.eqb (e_ski x) p); reflexivity. Qed.

Lemma drop_hitE p g l : drop p g l = filter (fun x => negb (hitE p g x)) l.
Proof. reflexivity. Qed.

Lemma entity_match_hitE pe en x : entity_match pe en x = hitE (p_ski pe) [re_addr en] x.
Proof. unfold entity_match, hitE. simpl. rewrite orb_false_r. reflexivity. Qed.

Lemma is_event_ev_of s k x : is_event (ev_of s k x) = true.
Proof. reflexivity. Qed.

(* srv_ev only looks at the local tree's entities and the (entity, id) of its features *)
Lemma srv_ev_ext s s1 srv : lents s1 = lents s -> lfeats s1 = lfeats s -> srv_ev s1 srv = srv_ev s srv.
Proof. unfold srv_ev, find_lfeat. intros -> ->. reflexivity. Qed.

Lemma ev_of_ext s s1 k x : (forall srv, srv_ev s1 srv = srv_ev s srv) -> ev_of s1 k x = ev_of s k x.
Proof. intros H. unfold ev_of, removal_event. rewrite H. reflexivity. Qed.

Lemma norm_ev_removed k sa pe en x :
  k = EvSub \/ k = EvBind -> entity_match pe en x = true ->
  norm_event (ev_removed k sa pe en x) = ev_of sa k x.
Proof.
  intros Hk Hm. unfold entity_match in Hm. apply andb_true_iff in Hm. destruct Hm as [Hs He].
  apply N.eqb_eq in Hs. apply eqb_eaddr_eq in He.
  unfold ev_removed, ev_of, removal_event, strip, srv_ev. simpl. rewrite Hs, He.
  destruct Hk as [-> | ->]; reflexivity.
Qed.

Lemma map_norm_removed k sa pe en l :
  k = EvSub \/ k = EvBind ->
  map norm_event (map (ev_removed k sa pe en) (filter (entity_match pe en) l)) = map (ev_of sa k) (filter (entity_match pe en) l).
Proof.
  intros Hk. rewrite map_map. apply map_ext_in. intros x Hx. apply filter_In in Hx.
  apply norm_ev_removed; tauto.
Qed.

Lemma removed_all_events k sa pe en l : Forall (fun o => is_event o = true) (map (ev_removed k sa pe en) l).
Proof. apply Forall_forall. intros o Ho. apply in_map_iff in Ho. destruct Ho as [x [<- _]]. reflexivity. Qed.

Lemma removed_reg_events k sa pe en l : k = EvSub \/ k = EvBind ->
  filter is_reg_event (map (ev_removed k sa pe en) l) = map (ev_removed k sa pe en) l.
Proof.
  intros Hk. apply filter_all. intros o Ho. apply in_map_iff in Ho. destruct Ho as [x [<- _]].
  destruct Hk as [-> | ->]; reflexivity.
Qed.

(* two successive rounds of removal compose *)
Lemma compose_rounds {B} (fS fB : entry -> B) p g1 g2 L LB E1 E2 :
  Permutation E1 (map fS (filter (hitE p g1) L) ++ map fB (filter (hitE p g1) LB)) ->
  Permutation E2 (map fS (filter (hitE p g2) (drop p g1 L)) ++ map fB (filter (hitE p g2) (drop p g1 LB))) ->
  Permutation (E1 ++ E2) (map fS (filter (hitE p (g1 ++ g2)) L) ++ map fB (filter (hitE p (g1 ++ g2)) LB)).
Proof.
  intros H1 H2.
  assert (G : forall (f : entry -> B) l,
             Permutation (map f (filter (hitE p (g1 ++ g2)) l))
                         (map f (filter (hitE p g1) l) ++ map f (filter (hitE p g2) (drop p g1 l)))).
  { intros f l. rewrite <- map_app. apply Permutation_map.
    rewrite (filter_ext' (hitE p (g1 ++ g2)) (fun x => hitE p g1 x || hitE p g2 x)) by (intros x; apply hitE_app).
    rewrite drop_hitE, filter_filter. apply perm_filter_or. }
  eapply Permutation_trans; [apply Permutation_app; [exact H1 | exact H2]|].
  eapply Permutation_trans; [|apply Permutation_sym; apply Permutation_app; apply G].
  rewrite <- !app_assoc. apply Permutation_app_head.
  rewrite !app_assoc. apply Permutation_app_tail. apply Permutation_app_comm.
Qed.

(* ---------- disconnect ---------- *)
Lemma fold_F1_events pe ents : forall sa ea,
  let '(s1, ev1) := fold_left (F1 pe) ents (sa, ea) in
  exists EV, ev1 = ea ++ EV /\ Forall (fun o => is_event o = true) EV /\
             Permutation (map norm_event EV) (map (ev_of sa EvSub) (filter (hitE (p_ski pe) (map re_addr ents)) (subs sa))).
Proof.
  induction ents as [|en r IH]; intros sa ea; simpl.
  - exists []. rewrite app_nil_r. split; [reflexivity|]. split; [constructor|].
    rewrite filter_none; [constructor|]. intros x _. unfold hitE. simpl. apply andb_false_r.
  - match goal with |- context [fold_left (F1 pe) r (?s0, ?e0)] =>
      specialize (IH s0 e0); destruct (fold_left (F1 pe) r (s0, e0)) as [s1 ev1] end.
    destruct IH as [EV [He [Hall Hp]]].
    exists (map (ev_removed EvSub sa pe en) (filter (entity_match pe en) (subs sa)) ++ EV).
    split; [rewrite He, app_assoc; reflexivity|]. split; [apply Forall_app; split; [apply removed_all_events | exact Hall]|].
    rewrite map_app, map_norm_removed by (now left).
    simpl subs in Hp.
    change (re_addr en :: map re_addr r) with ([re_addr en] ++ map re_addr r).
    rewrite (filter_ext' (hitE (p_ski pe) ([re_addr en] ++ map re_addr r))
                         (fun x => hitE (p_ski pe) [re_addr en] x || hitE (p_ski pe) (map re_addr r) x))
      by (intros x; apply hitE_app).
    eapply Permutation_trans; [|apply Permutation_sym; apply Permutation_map; apply perm_filter_or].
    rewrite map_app. apply Permutation_app.
    + rewrite (filter_ext' (entity_match pe en) (hitE (p_ski pe) [re_addr en])) by (intros x; apply entity_match_hitE).
      apply Permutation_refl.
    + eapply Permutation_trans; [exact Hp|].
      rewrite filter_filter.
      rewrite (filter_ext' (fun x => negb (entity_match pe en x) && hitE (p_ski pe) (map re_addr r) x)
                           (fun x => negb (hitE (p_ski pe) [re_addr en] x) && hitE (p_ski pe) (map re_addr r) x))
        by (intros x; rewrite entity_match_hitE; reflexivity).
      erewrite map_ext; [apply Permutation_refl|]. intros x. apply ev_of_ext. intros srv. apply srv_ev_ext; reflexivity.
Qed.

Lemma fold_F2_events pe ents : forall sa ea,
  let '(s1, ev1) := fold_left (F2 pe) ents (sa, ea) in
  exists EV, ev1 = ea ++ EV /\ Forall (fun o => is_event o = true) EV /\
             Permutation (map norm_event EV) (map (ev_of sa EvBind) (filter (hitE (p_ski pe) (map re_addr ents)) (binds sa))).
Proof.
  induction ents as [|en r IH]; intros sa ea; simpl.
  - exists []. rewrite app_nil_r. split; [reflexivity|]. split; [constructor|].
    rewrite filter_none; [constructor|]. intros x _. unfold hitE. simpl. apply andb_false_r.
  - match goal with |- context [fold_left (F2 pe) r (?s0, ?e0)] =>
      specialize (IH s0 e0); destruct (fold_left (F2 pe) r (s0, e0)) as [s1 ev1] end.
    destruct IH as [EV [He [Hall Hp]]].
    exists (map (ev_removed EvBind sa pe en) (filter (entity_match pe en) (binds sa)) ++ EV).
    split; [rewrite He, app_assoc; reflexivity|]. split; [apply Forall_app; split; [apply removed_all_events | exact Hall]|].
    rewrite map_app, map_norm_removed by (now right).
    simpl binds in Hp.
    change (re_addr en :: map re_addr r) with ([re_addr en] ++ map re_addr r).
    rewrite (filter_ext' (hitE (p_ski pe) ([re_addr en] ++ map re_addr r))
                         (fun x => hitE (p_ski pe) [re_addr en] x || hitE (p_ski pe) (map re_addr r) x))
      by (intros x; apply hitE_app).
    eapply Permutation_trans; [|apply Permutation_sym; apply Permutation_map; apply perm_filter_or].
    rewrite map_app. apply Permutation_app.
    + rewrite (filter_ext' (entity_match pe en) (hitE (p_ski pe) [re_addr en])) by (intros x; apply entity_match_hitE).
      apply Permutation_refl.
    + eapply Permutation_trans; [exact Hp|].
      rewrite filter_filter.
      rewrite (filter_ext' (fun x => negb (entity_match pe en x) && hitE (p_ski pe) (map re_addr r) x)
                           (fun x => negb (hitE (p_ski pe) [re_addr en] x) && hitE (p_ski pe) (map re_addr r) x))
        by (intros x; rewrite entity_match_hitE; reflexivity).
      erewrite map_ext; [apply Permutation_refl|]. intros x. apply ev_of_ext. intros srv. apply srv_ev_ext; reflexivity.
Qed.

(* every entry of a connected peer sits on an entity of its tree *)
Lemma hit_all_of_peer s p pe l :
  find_peer s p = Some pe -> (forall e, In e l -> owner_ok s e) ->
  filter (hitE p (map re_addr (p_ents pe))) l = filter (fun x => N.eqb (e_ski x) p) l.
Proof.
  intros Ep Hok. apply filter_ext_in. intros x Hx. unfold hitE.
  destruct (N.eqb_spec (e_ski x) p) as [E|E]; [|reflexivity]. simpl.
  destruct (Hok x Hx) as [pe' [en' [Hf Hr]]]. rewrite E, Ep in Hf. inversion Hf; subst pe'.
  apply existsb_exists. exists (re_addr en'). split.
  - apply in_map. unfold find_rent in Hr. apply find_some in Hr. tauto.
  - rewrite (find_rent_addr _ _ _ Hr). apply eqb_eaddr_refl.
Qed.

Lemma no_entry_of_unknown_peer s p l :
  find_peer s p = None -> (forall e, In e l -> owner_ok s e) -> filter (fun x => N.eqb (e_ski x) p) l = [].
Proof.
  intros Ep Hok. apply filter_none. intros x Hx. destruct (Hok x Hx) as [pe' [en' [Hf _]]].
  destruct (N.eqb_spec (e_ski x) p) as [E|E]; [|reflexivity]. rewrite E, Ep in Hf. discriminate.
Qed.

(* the events of a disconnect: one per entry of the peer (up to order), then the device event *)
Lemma disconnect_events s p : RegOK s ->
  exists EV, snd (disconnect s p) = EV ++ [device_event p] /\ Forall (fun o => is_event o = true) EV /\
    Permutation (map norm_event EV)
      (map (ev_of s EvSub) (filter (fun x => N.eqb (e_ski x) p) (subs s)) ++
       map (ev_of s EvBind) (filter (fun x => N.eqb (e_ski x) p) (binds s))).
Proof.
  intros [HokS HokB]. unfold disconnect. destruct (find_peer s p) as [pe|] eqn:Ep.
  - rewrite remove_all_unfold.
    pose proof (fold_F1_events pe (p_ents pe) s []) as H1.
    pose proof (fold_F1 pe (p_ents pe) s [] quiet_evs_nil) as F1s.
    destruct (fold_left (F1 pe) (p_ents pe) (s, [])) as [s1 ev1].
    destruct H1 as [EV1 [He1 [Hall1 Hp1]]]. destruct F1s as [[Hs1 Hn1 Hb1 Hnb1] [Hpe1 [Hlf1 [Hle1 _]]]].
    pose proof (fold_F2_events pe (p_ents pe) s1 ev1) as H2.
    destruct (fold_left (F2 pe) (p_ents pe) (s1, ev1)) as [s2 ev2].
    destruct H2 as [EV2 [He2 [Hall2 Hp2]]]. simpl snd.
    exists (EV1 ++ EV2). split; [rewrite He2, He1; reflexivity|]. split; [apply Forall_app; split; assumption|].
    rewrite map_app. apply Permutation_app.
    + pose proof (find_peer_ski _ _ _ Ep) as Hski. rewrite Hski in Hp1.
      rewrite (hit_all_of_peer s p pe (subs s) Ep HokS) in Hp1. exact Hp1.
    + pose proof (find_peer_ski _ _ _ Ep) as Hski. rewrite Hski, Hb1 in Hp2.
      rewrite (hit_all_of_peer s p pe (binds s) Ep HokB) in Hp2.
      rewrite (map_ext (ev_of s1 EvBind) (ev_of s EvBind)) in Hp2; [exact Hp2|].
      intros x. apply ev_of_ext. intros srv. apply srv_ev_ext; assumption.
  - exists []. simpl. split; [reflexivity|]. split; [constructor|].
    rewrite (no_entry_of_unknown_peer s p (subs s) Ep HokS), (no_entry_of_unknown_peer s p (binds s) Ep HokB). constructor.
Qed.

(* ---------- entity removal by discovery notification ---------- *)
Lemma find_map_key {A} (P : A -> bool) (g : A -> A) l :
  (forall x, P (g x) = P x) -> find P (map g l) = option_map g (find P l).
Proof.
  intros H. induction l as [|x l IH]; simpl; [reflexivity|]. rewrite H. destruct (P x); [reflexivity | exact IH].
Qed.

Lemma srv_ev_keymap s s1 (g : lfeat -> lfeat) srv :
  lents s1 = lents s -> lfeats s1 = map g (lfeats s) ->
  (forall x, lf_ent (g x) = lf_ent x /\ lf_id (g x) = lf_id x) -> srv_ev s1 srv = srv_ev s srv.
Proof.
  intros Hle Hlf Hg. unfold srv_ev, find_lfeat. rewrite Hle, Hlf.
  rewrite find_map_key by (intros x; destruct (Hg x) as [-> ->]; reflexivity).
  destruct (find _ (lfeats s)) as [sf|]; simpl; [|reflexivity].
  unfold lf_addr. destruct (Hg sf) as [-> ->]. reflexivity.
Qed.

Lemma srv_ev_clean_entity s d a srv : srv_ev (clean_entity_caches s d a) srv = srv_ev s srv.
Proof.
  unfold clean_entity_caches. destruct d; [|reflexivity].
  eapply srv_ev_keymap; [reflexivity | reflexivity | intros x; split; reflexivity].
Qed.

Lemma hit_nil p l : filter (hitE p []) l = [].
Proof. apply filter_none. intros x _. unfold hitE. simpl. apply andb_false_r. Qed.

Definition teardown_perm (s : st) (p : N) (evs : list obs) (L LB : list entry) : Prop :=
  Permutation (map norm_event (filter is_reg_event evs))
     (map (ev_of s EvSub) (filter (hitE p (gone_of evs)) L) ++
      map (ev_of s EvBind) (filter (hitE p (gone_of evs)) LB)).

Lemma teardown_perm_nil s p L LB : teardown_perm s p [] L LB.
Proof. unfold teardown_perm. simpl. rewrite !hit_nil. constructor. Qed.

(* NodeManagement.removeRemoteEntity *)
Lemma remove_entity_events s p a s' evs :
  RegOK s -> remove_entity s p a = (s', evs) ->
  teardown_perm s p evs (subs s) (binds s) /\
  (forall srv, srv_ev s' srv = srv_ev s srv) /\
  Forall (fun o => is_event o = true) evs.
Proof.
  intros Hok H. rewrite remove_entity_unfold in H.
  destruct (find_peer s p) as [pe|] eqn:Ep.
  2:{ inversion H; subst. split; [apply teardown_perm_nil | split; [reflexivity | constructor]]. }
  destruct (find_rent pe a) as [en|] eqn:Een.
  2:{ inversion H; subst. split; [apply teardown_perm_nil | split; [reflexivity | constructor]]. }
  cbv zeta in H.
  set (pe1 := {| p_ski := p_ski pe; p_addr := p_addr pe;
                 p_ents := filter (fun x => negb (eqb_eaddr (re_addr x) a)) (p_ents pe) |}) in *.
  destruct (remove_for_entity (set_peer s pe1) pe1 en) as [s2 evs1] eqn:Hrfe.
  injection H as H1 H2. subst s' evs.
  pose proof (find_peer_ski _ _ _ Ep) as Hski.
  pose proof (find_rent_addr _ _ _ Een) as Haddr.
  assert (Hevs1 : evs1 = map (ev_removed EvSub (set_peer s pe1) pe1 en) (filter (entity_match pe1 en) (subs s)) ++
                         map (ev_removed EvBind (set_peer s pe1) pe1 en) (filter (entity_match pe1 en) (binds s))).
  { unfold remove_for_entity in Hrfe. inversion Hrfe. reflexivity. }
  assert (Hgone : gone_of (ev_entity ChRemove pe (re_addr en) :: evs1) = [a]).
  { change (gone_of (ev_entity ChRemove pe (re_addr en) :: evs1)) with (re_addr en :: gone_of evs1).
    replace (gone_of evs1) with (@nil eaddr); [rewrite Haddr; reflexivity|].
    rewrite Hevs1, gone_of_app.
    destruct (evs_removed_quiet EvSub (set_peer s pe1) pe1 en (filter (entity_match pe1 en) (subs s))) as [_ [_ G1]]; [discriminate|].
    destruct (evs_removed_quiet EvBind (set_peer s pe1) pe1 en (filter (entity_match pe1 en) (binds s))) as [_ [_ G2]]; [discriminate|].
    rewrite G1, G2. reflexivity. }
  split; [|split].
  - unfold teardown_perm. rewrite Hgone.
    change (filter is_reg_event (ev_entity ChRemove pe (re_addr en) :: evs1)) with (filter is_reg_event evs1).
    rewrite Hevs1, filter_app, !removed_reg_events by auto. rewrite map_app, !map_norm_removed by auto.
    rewrite !(filter_ext' (entity_match pe1 en) (hitE p [a]))
      by (intros x; rewrite entity_match_hitE; simpl p_ski; rewrite Hski, Haddr; reflexivity).
    apply Permutation_refl.
  - intros srv. rewrite srv_ev_clean_entity. unfold remove_for_entity in Hrfe. inversion Hrfe. reflexivity.
  - constructor; [reflexivity|]. rewrite Hevs1. apply Forall_app. split; apply removed_all_events.
Qed.

Lemma teardown_perm_app s s1 p evs1 evs2 L LB :
  teardown_perm s p evs1 L LB ->
  (forall srv, srv_ev s1 srv = srv_ev s srv) ->
  teardown_perm s1 p evs2 (drop p (gone_of evs1) L) (drop p (gone_of evs1) LB) ->
  teardown_perm s p (evs1 ++ evs2) L LB.
Proof.
  unfold teardown_perm. intros H1 Hsrv H2. rewrite filter_app, map_app, gone_of_app.
  apply compose_rounds; [exact H1|].
  rewrite (map_ext (ev_of s1 EvSub) (ev_of s EvSub)) in H2 by (intros x; apply ev_of_ext; exact Hsrv).
  rewrite (map_ext (ev_of s1 EvBind) (ev_of s EvBind)) in H2 by (intros x; apply ev_of_ext; exact Hsrv).
  exact H2.
Qed.

Lemma remove_unlisted_events listed es : forall s p s' evs,
  RegOK s -> remove_unlisted s p listed es = (s', evs) ->
  teardown_perm s p evs (subs s) (binds s) /\
  (forall srv, srv_ev s' srv = srv_ev s srv) /\
  Forall (fun o => is_event o = true) evs.
Proof.
  induction es as [|a r IH]; intros s p s' evs Hok H.
  - simpl in H. inversion H; subst. split; [apply teardown_perm_nil | split; [reflexivity | constructor]].
  - simpl in H. destruct (existsb (eqb_eaddr a) listed || eqb_eaddr a [0%N]); [exact (IH _ _ _ _ Hok H)|].
    destruct (remove_entity s p a) as [s1 evs1] eqn:E1.
    destruct (remove_entity_spec _ _ _ _ _ Hok E1) as [Hok1 [[Hs1 _ Hb1 _] _]].
    destruct (remove_entity_events _ _ _ _ _ Hok E1) as [Hp1 [Hsrv1 Hall1]].
    destruct (remove_unlisted s1 p listed r) as [s2 evs2] eqn:E2.
    destruct (IH _ _ _ _ Hok1 E2) as [Hp2 [Hsrv2 Hall2]].
    injection H as H1 H2. subst s' evs.
    split; [|split].
    + apply (teardown_perm_app s s1); [exact Hp1 | exact Hsrv1|]. rewrite <- Hs1, <- Hb1. exact Hp2.
    + intros srv. rewrite Hsrv2. apply Hsrv1.
    + apply Forall_app. split; assumption.
Qed.

Lemma added_all_events pe l : Forall (fun o => is_event o = true) (map (ev_entity ChAdd pe) l).
Proof. apply Forall_forall. intros o Ho. apply in_map_iff in Ho. destruct Ho as [x [<- _]]. reflexivity. Qed.

Lemma added_no_reg_events pe l : filter is_reg_event (map (ev_entity ChAdd pe) l) = [].
Proof. induction l as [|x l IH]; simpl; [reflexivity | exact IH]. Qed.

Lemma teardown_perm_added s p pe created evs L LB :
  teardown_perm s p evs L LB -> teardown_perm s p (map (ev_entity ChAdd pe) created ++ evs) L LB.
Proof. unfold teardown_perm. rewrite filter_app, added_no_reg_events, gone_of_app, gone_of_added. auto. Qed.

Lemma notify_entries_events l : forall s p m s' evs err,
  RegOK s -> notify_entries s p m l = (s', evs, err) ->
  teardown_perm s p evs (subs s) (binds s) /\
  (forall srv, srv_ev s' srv = srv_ev s srv) /\
  Forall (fun o => is_event o = true) evs.
Proof.
  induction l as [|de r IH]; intros s p m s' evs err Hok H.
  - simpl in H. inversion H; subst. split; [apply teardown_perm_nil | split; [reflexivity | constructor]].
  - rewrite notify_entries_cons in H.
    destruct (de_state de) as [[|]|];
      [| |inversion H; subst; split; [apply teardown_perm_nil | split; [reflexivity | constructor]]].
    + destruct (find_peer s p) as [pe|] eqn:Ep.
      2:{ inversion H; subst. split; [apply teardown_perm_nil | split; [reflexivity | constructor]]. }
      destruct (check_entity pe de); cbn [negb] in H.
      2:{ inversion H; subst. split; [apply teardown_perm_nil | split; [reflexivity | constructor]]. }
      pose proof (RegOK_set_peer_add s p pe m [de] Ep Hok) as Hok1.
      destruct (add_entities pe m [de]) as [pe1 created]. simpl fst in Hok1.
      destruct (notify_entries (set_peer s pe1) p m r) as [[s2 evs2] err2] eqn:Er.
      injection H as H1 H2 H3. subst s' evs err.
      destruct (IH _ _ _ _ _ _ Hok1 Er) as [Hp2 [Hsrv2 Hall2]].
      split; [|split].
      * apply teardown_perm_added. unfold teardown_perm in *.
        rewrite (map_ext (ev_of (set_peer s pe1) EvSub) (ev_of s EvSub)) in Hp2
          by (intros x; apply ev_of_ext; intros srv; apply srv_ev_ext; reflexivity).
        rewrite (map_ext (ev_of (set_peer s pe1) EvBind) (ev_of s EvBind)) in Hp2
          by (intros x; apply ev_of_ext; intros srv; apply srv_ev_ext; reflexivity).
        exact Hp2.
      * intros srv. rewrite Hsrv2. apply srv_ev_ext; reflexivity.
      * apply Forall_app. split; [apply added_all_events | exact Hall2].
    + destruct (find_peer s p) as [pe|] eqn:Ep.
      2:{ inversion H; subst. split; [apply teardown_perm_nil | split; [reflexivity | constructor]]. }
      destruct (check_removed pe de); cbn [negb] in H.
      2:{ inversion H; subst. split; [apply teardown_perm_nil | split; [reflexivity | constructor]]. }
      destruct (remove_entity s p (de_addr de)) as [s1 evs1] eqn:E1.
      destruct (remove_entity_spec _ _ _ _ _ Hok E1) as [Hok1 [[Hs1 _ Hb1 _] _]].
      destruct (remove_entity_events _ _ _ _ _ Hok E1) as [Hp1 [Hsrv1 Hall1]].
      destruct (notify_entries s1 p m r) as [[s2 evs2] err2] eqn:Er.
      injection H as H1 H2 H3. subst s' evs err.
      destruct (IH _ _ _ _ _ _ Hok1 Er) as [Hp2 [Hsrv2 Hall2]].
      split; [|split].
      * apply (teardown_perm_app s s1); [exact Hp1 | exact Hsrv1|]. rewrite <- Hs1, <- Hb1. exact Hp2.
      * intros srv. rewrite Hsrv2. apply Hsrv1.
      * apply Forall_app. split; assumption.
Qed.

(* ---------- a discovery reply ---------- *)
Lemma srv_ev_upd s e f g srv :
  (forall x, lf_ent (g x) = lf_ent x /\ lf_id (g x) = lf_id x) -> srv_ev (upd_lfeat s e f g) srv = srv_ev s srv.
Proof.
  intros Hg. eapply (srv_ev_keymap s _ (fun x => if eqb_eaddr (lf_ent x) e && N.eqb (lf_id x) f then g x else x));
    [reflexivity | reflexivity|].
  intros x. destruct (_ && _); [apply Hg | split; reflexivity].
Qed.

Lemma handle_device_added_srv s1 p pe pe1 l0 srv : srv_ev (handle_device_added s1 p pe pe1 l0) srv = srv_ev s1 srv.
Proof.
  unfold handle_device_added.
  set (s1a := if reply_completes pe pe1 then _ else s1).
  assert (H1a : srv_ev s1a srv = srv_ev s1 srv).
  { unfold s1a. destruct (reply_completes pe pe1); [|reflexivity]. destruct l0; apply srv_ev_ext; reflexivity. }
  assert (Hu : forall d0, srv_ev (upd_lfeat s1a [0%N] 0 (add_client_ref true (nm_addr (Some d0)))) srv = srv_ev s1 srv).
  { intros d0. rewrite srv_ev_upd; [exact H1a | intros x; split; reflexivity]. }
  destruct (match remote_feature pe (nm_addr None) with Some (_, rf) => rf_dev rf | None => None end) as [d0|].
  - destruct (peer_by_addr s1a d0); [apply Hu | exact H1a].
  - destruct (p_addr pe1) as [d1|]; [|exact H1a]. destruct (peer_by_addr s1a d1); [apply Hu | exact H1a].
Qed.

Lemma reply_events s p m : RegOK s ->
  let out := snd (step s (DiscoveryReply p m)) in
  teardown_perm s p out (completed s p m (subs s)) (completed s p m (binds s)) /\
  Forall (fun o => is_event o = true) out.
Proof.
  intros Hok. unfold completed, model_completion. cbn [step]. unfold with_source.
  destruct (find_peer s p) as [pe|] eqn:Ep; [|split; [apply teardown_perm_nil | constructor]].
  destruct (remote_feature pe (nm_addr None)) as [[en rf]|] eqn:Esrc; [|split; [apply teardown_perm_nil | constructor]].
  set (pe0 := {| p_ski := p_ski pe; p_addr := match dm_dev m with Some d => Some d | None => p_addr pe end; p_ents := p_ents pe |}).
  pose proof (RegOK_set_peer_add' s p pe pe0 m (dm_ents m) Ep eq_refl eq_refl Hok) as Hok1.
  pose proof (add_entities_ski pe0 m (dm_ents m)) as Hski.
  pose proof (add_entities_addr pe0 m (dm_ents m)) as Haddr.
  destruct (add_entities pe0 m (dm_ents m)) as [pe1 created]. simpl fst in Hok1, Hski, Haddr.
  pose proof (find_peer_ski _ _ _ Ep) as Hp.
  assert (Ep1 : find_peer (set_peer s pe1) p = Some pe1).
  { rewrite find_peer_set_peer, Ep, Hski. simpl. rewrite Hp, N.eqb_refl. reflexivity. }
  assert (Hski1 : p_ski pe1 = p) by (rewrite Hski; simpl; exact Hp).
  destruct (handle_device_added_spec (set_peer s pe1) p pe pe1
              (existsb (fun de => eqb_eaddr (de_addr de) [0%N]) (dm_ents m)) Ep1 Hski1 Hok1) as [Hok2 [Hs2 [Hb2 _]]].
  pose proof (handle_device_added_srv (set_peer s pe1) p pe pe1 (existsb (fun de => eqb_eaddr (de_addr de) [0%N]) (dm_ents m))) as Hsrv2.
  destruct (remove_unlisted _ p (map de_addr (dm_ents m)) (map re_addr (p_ents pe1))) as [s3 evs] eqn:Eu.
  destruct (remove_unlisted_events _ _ _ _ _ _ Hok2 Eu) as [Hperm [_ Hall]]. cbn [snd].
  assert (Hmap : forall l, reply_map p pe pe1 l =
                           match (match rf_dev rf with None => reply_addr pe m | Some _ => None end) with
                           | Some d => complete_nm_addr p (Some d) l
                           | None => l
                           end).
  { intros l. unfold reply_map, reply_completes, reply_addr. rewrite Esrc, Haddr. simpl p_addr.
    destruct (rf_dev rf); [reflexivity|]. destruct (match dm_dev m with Some d => Some d | None => p_addr pe end); reflexivity. }
  split.
  - change (OEvent EvDevice ChAdd p None None None :: map (ev_entity ChAdd pe1) created ++ evs)
      with ([OEvent EvDevice ChAdd p None None None] ++ (map (ev_entity ChAdd pe1) created ++ evs)).
    unfold teardown_perm. rewrite filter_app, gone_of_app. simpl filter at 1. simpl gone_of at 1. simpl app.
    fold (teardown_perm s p (map (ev_entity ChAdd pe1) created ++ evs)
            (match (match rf_dev rf with None => reply_addr pe m | Some _ => None end) with Some d => complete_nm_addr p (Some d) (subs s) | None => subs s end)
            (match (match rf_dev rf with None => reply_addr pe m | Some _ => None end) with Some d => complete_nm_addr p (Some d) (binds s) | None => binds s end)).
    apply teardown_perm_added. rewrite Hs2, Hb2, !Hmap in Hperm. simpl subs in Hperm. simpl binds in Hperm.
    unfold teardown_perm in *.
    rewrite (map_ext (ev_of _ EvSub) (ev_of s EvSub)) in Hperm
      by (intros x; apply ev_of_ext; intros srv; rewrite Hsrv2; apply srv_ev_ext; reflexivity).
    rewrite (map_ext (ev_of _ EvBind) (ev_of s EvBind)) in Hperm
      by (intros x; apply ev_of_ext; intros srv; rewrite Hsrv2; apply srv_ev_ext; reflexivity).
    exact Hperm.
  - constructor; [reflexivity|]. apply Forall_app. split; [apply added_all_events | exact Hall].
Qed.
