(* C01 — proofs: the dispatcher of Model/Dispatch.v emits exactly the responses of the table
   Spec/ResponseSpec.v, correctly addressed, in every reachable state. *)
From Verif Require Import Base.Prelude Model.Dispatch Spec.ResponseSpec.

(* ------------------------------------------------------------------ lists *)
Lemma filter_len_le {A} (f : A -> bool) (l : list A) : (length (filter f l) <= length l)%nat.
Proof. induction l as [|x l IH]; [apply le_n|]. cbn [filter]. destruct (f x); cbn [length]; lia. Qed.

Lemma filter_length_all {A} (f : A -> bool) (l : list A) :
  Nat.eqb (length (filter f l)) (length l) = forallb f l.
Proof.
  induction l as [|x l IH]; [reflexivity|]. cbn [filter forallb].
  destruct (f x); cbn [andb length].
  - exact IH.
  - apply Nat.eqb_neq. pose proof (filter_len_le f l) as H. lia.
Qed.

Lemma forallb_negb_existsb {A} (f : A -> bool) (l : list A) :
  forallb (fun x => negb (f x)) l = negb (existsb f l).
Proof.
  induction l as [|x l IH]; [reflexivity|]. cbn [forallb existsb]. rewrite IH.
  destruct (f x); reflexivity.
Qed.

Lemma existsb_ext {A} (f g : A -> bool) (l : list A) :
  (forall x, f x = g x) -> existsb f l = existsb g l.
Proof. intros H. induction l as [|x l IH]; [reflexivity|]. cbn. rewrite H, IH. reflexivity. Qed.

Lemma filter_nil_existsb {A} (f : A -> bool) (l : list A) :
  match filter f l with [] => true | _ => false end = negb (existsb f l).
Proof.
  induction l as [|x l IH]; [reflexivity|]. cbn [filter existsb].
  destruct (f x); [reflexivity | exact IH].
Qed.

Lemma existsb_filter {A} (f g : A -> bool) (l : list A) :
  existsb f (filter g l) = existsb (fun x => g x && f x) l.
Proof.
  induction l as [|x l IH]; [reflexivity|]. cbn [filter existsb].
  destruct (g x); cbn [existsb andb]; rewrite IH; reflexivity.
Qed.

(* ------------------------------------------------------------------ registry rules = acceptance rules *)
Lemma add_subscription_err s pe c : snd (add_subscription s pe c) = negb (sub_granted s pe c).
Proof.
  unfold add_subscription, sub_granted.
  destruct (local_feature s (rc_srv c)) as [sf|]; [|reflexivity].
  destruct (role_type_ok (lf_role sf) (lf_type sf) RServer (rc_type c)); cbn [negb].
  2:{ destruct (remote_feature pe (rc_cli c)) as [[en rf]|]; reflexivity. }
  destruct (remote_feature pe (rc_cli c)) as [[en rf]|]; [|reflexivity].
  destruct (role_type_ok (rf_role rf) (rf_type rf) RClient (rc_type c)); cbn [negb andb]; [|reflexivity].
  unfold same_entry.
  destruct (existsb _ (subs s)); reflexivity.
Qed.

Lemma remove_subscription_err s pe c : snd (remove_subscription s pe c) = negb (sub_deletable s pe c).
Proof.
  unfold remove_subscription, sub_deletable.
  destruct (remote_feature pe (rc_cli c)) as [[en rf]|].
  2:{ destruct (local_feature s (rc_srv c)); reflexivity. }
  destruct (local_feature s (rc_srv c)) as [sf|]; [|reflexivity].
  rewrite filter_length_all, forallb_negb_existsb. unfold named_by.
  destruct (existsb _ (subs s)); reflexivity.
Qed.

Lemma has_binding_bound s sf cli : has_binding s sf cli = bound s sf cli.
Proof. unfold has_binding, bound, bindings_on. apply existsb_filter. Qed.

Lemma add_binding_err s pe c : snd (add_binding s pe c) = negb (bind_granted s pe c).
Proof.
  unfold add_binding, bind_granted.
  destruct (local_feature s (rc_srv c)) as [sf|]; [|reflexivity].
  destruct (role_type_ok (lf_role sf) (lf_type sf) RServer (rc_type c)); cbn [negb].
  2:{ destruct (remote_feature pe (rc_cli c)) as [[en rf]|]; reflexivity. }
  unfold bindings_on.
  pose proof (filter_nil_existsb (fun x => same_srv x sf) (binds s)) as Hn.
  destruct (filter (fun x => same_srv x sf) (binds s)) as [|b bs].
  - destruct (existsb (fun x => same_srv x sf) (binds s)); [discriminate Hn|].
    destruct (remote_feature pe (rc_cli c)) as [[en rf]|]; [|reflexivity].
    destruct (role_type_ok (rf_role rf) (rf_type rf) RClient (rc_type c)); reflexivity.
  - destruct (existsb (fun x => same_srv x sf) (binds s)); [|discriminate Hn].
    destruct (remote_feature pe (rc_cli c)) as [[en rf]|]; [|reflexivity].
    cbn. rewrite andb_false_r. reflexivity.
Qed.

Lemma role_type_self r t : role_type_ok r t RServer t = (eqb_role r RSpecial || eqb_role r RServer).
Proof. unfold role_type_ok. rewrite N.eqb_refl. cbn. apply andb_true_r. Qed.

Lemma remove_binding_err s pe c : snd (remove_binding s pe c) = negb (bind_deletable s pe c).
Proof.
  unfold remove_binding, bind_deletable.
  destruct (remote_feature pe (rc_cli c)) as [[en rf]|].
  2:{ destruct (local_feature s (rc_srv c)); reflexivity. }
  destruct (local_feature s (rc_srv c)) as [sf|]; [|reflexivity].
  rewrite role_type_self, has_binding_bound.
  destruct (eqb_role (lf_role sf) RSpecial || eqb_role (lf_role sf) RServer); cbn [negb andb]; [|reflexivity].
  destruct (bound s sf (rf_addr en rf)); cbn [negb andb]; [|reflexivity].
  rewrite filter_length_all, forallb_negb_existsb. unfold named_by.
  destruct (existsb _ (binds s)); reflexivity.
Qed.

(* ------------------------------------------------------------------ discovery notifications *)
Lemma find_peer_ski s p pe : find_peer s p = Some pe -> p_ski pe = p.
Proof. unfold find_peer. intros H. apply find_some in H. destruct H as [_ H]. apply N.eqb_eq in H. exact H. Qed.

Lemma find_map_replace (p : N) (pe1 : peer) (l : list peer) pe :
  p_ski pe1 = p ->
  find (fun x => N.eqb (p_ski x) p) l = Some pe ->
  find (fun x => N.eqb (p_ski x) p) (map (fun x => if N.eqb (p_ski x) (p_ski pe1) then pe1 else x) l) = Some pe1.
Proof.
  intros Hk. subst p. induction l as [|x l IH]; [discriminate|]. cbn [find map].
  destruct (N.eqb (p_ski x) (p_ski pe1)) eqn:E.
  - intros _. rewrite N.eqb_refl. reflexivity.
  - intros H. rewrite E. apply IH. exact H.
Qed.

Lemma find_peer_set_peer s p pe pe1 :
  find_peer s p = Some pe -> p_ski pe1 = p -> find_peer (set_peer s pe1) p = Some pe1.
Proof. unfold find_peer, set_peer, set_peers. cbn [peers]. intros H Hk. eapply find_map_replace; eauto. Qed.

Lemma add_entity_ski pe m de : p_ski (add_entity pe m de) = p_ski pe /\ p_addr (add_entity pe m de) = p_addr pe.
Proof. unfold add_entity. destruct (find_rent pe (de_addr de)); split; reflexivity. Qed.

Lemma check_entity_addr i pe pe' de : p_addr pe = p_addr pe' -> check_entity i pe de = check_entity i pe' de.
Proof. unfold check_entity. intros ->. reflexivity. Qed.

Lemma forallb_ext_in {A} (f g : A -> bool) l : (forall x, f x = g x) -> forallb f l = forallb g l.
Proof. intros H. induction l as [|x l IH]; [reflexivity|]. cbn. rewrite H, IH. reflexivity. Qed.

Lemma find_peer_remove_for_entity s pe1 en p : find_peer (remove_for_entity s pe1 en) p = find_peer s p.
Proof. reflexivity. Qed.

Lemma lfeats_remove_remote_entity s p e : lfeats (remove_remote_entity s p e) = lfeats s.
Proof. unfold remove_remote_entity. destruct (find_peer s p) as [pe|]; [|reflexivity]. destruct (find_rent pe e); reflexivity. Qed.

Lemma find_peer_remove_remote_entity s p e pe :
  find_peer s p = Some pe ->
  exists pe', find_peer (remove_remote_entity s p e) p = Some pe' /\ p_addr pe' = p_addr pe.
Proof.
  intros Hp. unfold remove_remote_entity. rewrite Hp.
  destruct (find_rent pe e) as [en|]; [|exists pe; split; [exact Hp | reflexivity]].
  set (pe1 := {| p_ski := p_ski pe; p_addr := p_addr pe;
                 p_ents := filter (fun x => negb (eqb_eaddr (re_addr x) e)) (p_ents pe) |}).
  exists pe1. split; [|reflexivity].
  rewrite find_peer_remove_for_entity.
  eapply find_peer_set_peer; [exact Hp|]. apply find_peer_ski in Hp. exact Hp.
Qed.

Definition has_state (de : disc_ent) : bool := match de_state de with Some _ => true | None => false end.

Lemma notify_entries_err m l : forall s p pe,
  find_peer s p = Some pe ->
  snd (notify_entries s p m l) = negb (forallb (fun de => has_state de && check_entity false pe de) l).
Proof.
  induction l as [|de r IH]; intros s p pe Hp; [reflexivity|].
  cbn [notify_entries forallb]. unfold has_state at 1. rewrite Hp.
  destruct (de_state de) as [[|]|]; cbn [andb]; [| |reflexivity].
  - destruct (check_entity false pe de) eqn:Hc; cbn [negb andb]; [|reflexivity].
    assert (Hp1 : find_peer (set_peer s (add_entity pe m de)) p = Some (add_entity pe m de)).
    { eapply find_peer_set_peer; [exact Hp|]. rewrite (proj1 (add_entity_ski _ _ _)). apply find_peer_ski in Hp. exact Hp. }
    rewrite (IH _ _ _ Hp1). f_equal. apply forallb_ext_in. intros x. f_equal.
    apply check_entity_addr. apply (proj2 (add_entity_ski _ _ _)).
  - destruct (check_entity false pe de) eqn:Hc; cbn [negb andb]; [|reflexivity].
    destruct (find_peer_remove_remote_entity s p (de_addr de) pe Hp) as [pe' [Hp' Ha]].
    rewrite (IH _ _ _ Hp'). f_equal. apply forallb_ext_in. intros x. f_equal.
    apply check_entity_addr. exact Ha.
Qed.

Lemma discovery_notify_err s p pe m :
  find_peer s p = Some pe -> snd (discovery_notify s p m) = negb (disc_notify_ok pe m).
Proof.
  intros Hp. unfold discovery_notify, disc_notify_ok.
  pose proof (notify_entries_err m (dm_ents m) s p pe Hp) as H.
  destruct (dm_ents m) as [|de r] eqn:E; [reflexivity|].
  rewrite H. unfold has_state. reflexivity.
Qed.

Lemma add_entities_initial_err m l : forall pe,
  snd (add_entities true pe m l) = negb (forallb (fun de => match de_addr de with [] => false | _ => true end) l).
Proof.
  induction l as [|de r IH]; intros pe; [reflexivity|]. cbn [add_entities forallb].
  unfold check_entity at 1. destruct (de_addr de); cbn [negb orb andb]; [reflexivity|]. apply IH.
Qed.

Lemma discovery_reply_err s pe m : snd (discovery_reply s pe m) = negb (disc_reply_ok m).
Proof.
  unfold discovery_reply, disc_reply_ok.
  match goal with |- context [add_entities true ?q m (dm_ents m)] => pose proof (add_entities_initial_err m (dm_ents m) q) as H;
    destruct (add_entities true q m (dm_ents m)) as [pe1 err] end.
  cbn [snd] in H. subst err. destruct (forallb _ (dm_ents m)); reflexivity.
Qed.

Lemma lfeats_notify_entries m l : forall s p, lfeats (fst (notify_entries s p m l)) = lfeats s.
Proof.
  induction l as [|de r IH]; intros s p; [reflexivity|]. cbn [notify_entries].
  destruct (de_state de) as [[|]|]; destruct (find_peer s p) as [pe|]; try reflexivity;
    (destruct (negb _); [reflexivity|]); rewrite IH; [reflexivity | apply lfeats_remove_remote_entity].
Qed.

Lemma lfeats_discovery_notify s p m : lfeats (fst (discovery_notify s p m)) = lfeats s.
Proof. unfold discovery_notify. destruct (dm_ents m); [reflexivity|]. apply lfeats_notify_entries. Qed.

Lemma lfeats_fold_remove (f : rent -> bool) p l : forall s,
  lfeats (fold_left (fun sa en => if f en then sa else remove_remote_entity sa p (re_addr en)) l s) = lfeats s.
Proof.
  induction l as [|en l IH]; intros s; [reflexivity|]. cbn [fold_left]. rewrite IH.
  destruct (f en); [reflexivity | apply lfeats_remove_remote_entity].
Qed.

Lemma lfeats_discovery_reply s pe m : lfeats (fst (discovery_reply s pe m)) = lfeats s.
Proof.
  unfold discovery_reply.
  match goal with |- context [add_entities true ?q m (dm_ents m)] => destruct (add_entities true q m (dm_ents m)) as [pe1 err] end.
  destruct err; [reflexivity|]. cbn [fst]. rewrite lfeats_fold_remove. reflexivity.
Qed.

(* ------------------------------------------------------------------ the dispatcher against the table *)
Definition nm_ok (s : st) : Prop :=
  exists lf, find (is_feat [0%N] 0) (lfeats s) = Some lf /\ lf_type lf = T_NODEMGMT /\ lf_role lf = RSpecial.

Lemma eqb_eaddr_eq a : forall b, eqb_eaddr a b = true -> a = b.
Proof.
  induction a as [|x a IH]; intros [|y b] H; try discriminate; [reflexivity|].
  cbn in H. apply andb_true_iff in H. destruct H as [H1 H2]. apply N.eqb_eq in H1. subst. f_equal. apply IH. exact H2.
Qed.

Lemma nm_feature s a lf : nm_ok s -> local_feature s a = Some lf -> is_nm lf = true ->
  lf_type lf = T_NODEMGMT /\ lf_role lf = RSpecial.
Proof.
  intros [nm [Hf [Ht Hr]]] Hl Hn. unfold local_feature in Hl.
  destruct (existsb _ (lents s)); [|discriminate]. unfold find_lfeat in Hl.
  destruct (fa_feat a) as [f|]; [|discriminate].
  pose proof (find_some _ _ Hl) as [_ Hk]. unfold is_nm, is_feat in *.
  apply andb_true_iff in Hk. destruct Hk as [Hk1 Hk2]. apply andb_true_iff in Hn. destruct Hn as [Hn1 Hn2].
  apply eqb_eaddr_eq in Hk1. apply eqb_eaddr_eq in Hn1. apply N.eqb_eq in Hk2. apply N.eqb_eq in Hn2.
  rewrite <- Hk1, Hn1, <- Hk2, Hn2 in Hl. unfold is_feat in Hf. rewrite Hl in Hf. injection Hf as <-. split; assumption.
Qed.

Lemma eqb_eaddr_refl a : eqb_eaddr a a = true.
Proof. induction a as [|x a IH]; [reflexivity|]. cbn. rewrite N.eqb_refl. exact IH. Qed.
Lemma eqb_optN_refl a : eqb_optN a a = true.
Proof. destruct a; cbn; [apply N.eqb_refl | reflexivity]. Qed.
Lemma eqb_faddr_refl a : eqb_faddr a a = true.
Proof. unfold eqb_faddr. rewrite !eqb_optN_refl, eqb_eaddr_refl. reflexivity. Qed.

Definition rsp (out : list obs) : list obs := filter is_response out.

Lemma rsp_app a b : rsp (a ++ b) = rsp a ++ rsp b.
Proof. apply filter_app. Qed.

Lemma rsp_invokes lf r p en rf v l : rsp (map (mk_invoke lf r p en rf v) l) = [].
Proof. induction l as [|x l IH]; [reflexivity|]. cbn. exact IH. Qed.

Lemma rsp_response_cbs s lf r p en rf v :
  rsp (snd (process_response_cbs s lf r (mk_invoke lf r p en rf v))) = [].
Proof. unfold process_response_cbs. destruct (assoc_N r (lf_rcb lf)); cbn [snd]; [apply rsp_invokes | reflexivity]. Qed.

Lemma process_result_resp s p en rf lf d e :
  rsp (snd (fst (process_result s p en rf lf d e))) = [] /\ snd (process_result s p en rf lf d e) = None.
Proof.
  unfold process_result. destruct (d_ref d) as [r|]; [|split; reflexivity].
  pose proof (rsp_response_cbs s lf r p en rf e) as H.
  destruct (process_response_cbs s lf r (mk_invoke lf r p en rf e)) as [s1 o1]. cbn [snd fst] in *.
  rewrite rsp_app, H, rsp_invokes. split; reflexivity.
Qed.

(* the responses and the error of FeatureLocal.HandleMessage *)
Definition fl_resp (p : N) (rf : rfeat) (lf : lfeat) (d : dgram) (c : cls) (pl : payload) : list obs :=
  match c with
  | CRead => if negb (eqb_role (lf_role lf) RClient) && fn_registered (lf_type lf) (pl_fn pl)
             then [send_reply p d local_dev (pl_fn pl) (data_of lf (pl_fn pl))] else []
  | CWrite => if write_refused lf d (pl_fn pl)
              then [send_result p d local_dev E_GENERAL]
              else (if d_ack d then [send_result p d local_dev 0] else [])
  | _ => []
  end.

Definition fl_err (rf : rfeat) (lf : lfeat) (c : cls) (pl : payload) : option N :=
  match c with
  | CRead => if eqb_role (lf_role lf) RClient then Some E_REJECTED
             else if fn_registered (lf_type lf) (pl_fn pl) then None else Some E_GENERAL
  | CReply => if fn_registered (rf_type rf) (pl_fn pl) then None else Some E_GENERAL
  | CNotify => if fn_registered (rf_type rf) (pl_fn pl) && negb (partial_payload pl) then None else Some E_GENERAL
  | CWrite => None
  | CCall => Some E_GENERAL
  end.

Lemma fl_handle_bcmd s p en rf lf d c pl :
  d_body d = BCmd c pl ->
  rsp (snd (fst (fl_handle s p en rf lf d))) = fl_resp p rf lf d c pl /\
  snd (fl_handle s p en rf lf d) = fl_err rf lf c pl.
Proof.
  intros Hb. unfold fl_handle. rewrite Hb. unfold fl_resp, fl_err.
  destruct c.
  - destruct (eqb_role (lf_role lf) RClient); cbn [negb andb]; [split; reflexivity|].
    destruct (fn_registered (lf_type lf) (pl_fn pl)); cbn [negb]; split; reflexivity.
  - destruct (fn_registered (rf_type rf) (pl_fn pl)); cbn [negb]; [|split; reflexivity].
    destruct (d_ref d) as [r|]; [|split; reflexivity].
    pose proof (rsp_response_cbs s lf r p en rf (pl_val pl)) as H.
    destruct (process_response_cbs s lf r _) as [s1 o1]. cbn [snd fst] in *. split; [exact H | reflexivity].
  - destruct (fn_registered (rf_type rf) (pl_fn pl)); destruct (partial_payload pl); cbn [negb orb andb]; split; reflexivity.
  - unfold process_write. destruct (write_refused lf d (pl_fn pl)); cbn [snd fst]; [split; reflexivity|].
    destruct (d_ack d); split; reflexivity.
  - split; reflexivity.
Qed.

Definition nm_resp (s : st) (p : N) (lf : lfeat) (d : dgram) (c : cls) (pl : payload) : list obs :=
  match pl, c with
  | PDiscovery _, CRead => [send_reply p d local_dev FN_DISC 0]
  | PSubData, CCall => [send_reply p d local_dev FN_SUBDATA (count_of p (subs s))]
  | PBindData, CCall => [send_reply p d local_dev FN_BINDDATA (count_of p (binds s))]
  | PUseCase _, CRead => [send_reply p d local_dev FN_UC (data_of lf FN_UC)]
  | PDestList, CRead => [send_reply p d local_dev FN_DEST 0]
  | _, _ => []
  end.

Definition nm_noerr (s : st) (pe : peer) (c : cls) (pl : payload) : bool :=
  match pl, c with
  | PDiscovery _, CRead => true
  | PDiscovery m, CReply => disc_reply_ok m
  | PDiscovery m, CNotify => disc_notify_ok pe m
  | PSubReq rc, CCall => sub_granted s pe rc
  | PSubDel rc, CCall => sub_deletable s pe rc
  | PSubData, CCall => true
  | PBindReq rc, CCall => bind_granted s pe rc
  | PBindDel rc, CCall => bind_deletable s pe rc
  | PBindData, CCall => true
  | PUseCase _, CRead | PUseCase _, CReply | PUseCase _, CNotify => true
  | PDestList, CRead => true
  | _, _ => false
  end.

Definition nm_errno (pl : payload) : N := match pl with PData _ _ => E_NOTSUPPORTED | _ => E_GENERAL end.

Lemma reg_result_spec (r : st * bool) :
  rsp (snd (fst (reg_result r))) = [] /\ snd (reg_result r) = if snd r then Some E_GENERAL else None.
Proof. destruct r as [s1 e]. cbn. split; reflexivity. Qed.

Lemma nm_dispatch_spec s pe lf d c pl :
  find_peer s (p_ski pe) = Some pe ->
  rsp (snd (fst (nm_dispatch s pe lf d c pl))) = nm_resp s (p_ski pe) lf d c pl /\
  snd (nm_dispatch s pe lf d c pl) = if nm_noerr s pe c pl then None else Some (nm_errno pl).
Proof.
  intros Hp. unfold nm_dispatch, nm_resp, nm_noerr, nm_errno, err_general.
  destruct pl; destruct c; cbn [snd fst rsp filter is_response];
    try (split; reflexivity);
    match goal with
    | |- context [reg_result ?r] =>
        destruct (reg_result_spec r) as [H1 H2]; rewrite H1, H2; split; [reflexivity|]
    end.
  - rewrite discovery_reply_err. destruct (disc_reply_ok m); reflexivity.
  - rewrite (discovery_notify_err s (p_ski pe) pe m Hp). destruct (disc_notify_ok pe m); reflexivity.
  - rewrite add_subscription_err. destruct (sub_granted s pe c0); reflexivity.
  - rewrite remove_subscription_err. destruct (sub_deletable s pe c0); reflexivity.
  - rewrite add_binding_err. destruct (bind_granted s pe c0); reflexivity.
  - rewrite remove_binding_err. destruct (bind_deletable s pe c0); reflexivity.
Qed.

Lemma nm_reply_callbacks_spec b p en rf lf d c pl (h : hres) :
  rsp (snd (fst (nm_reply_callbacks b p en rf lf d c pl h))) = rsp (snd (fst h)) /\
  snd (nm_reply_callbacks b p en rf lf d c pl h) = snd h.
Proof.
  destruct h as [[s1 out] err]. unfold nm_reply_callbacks. cbn [snd fst].
  destruct err; [split; reflexivity|]. destruct c; try (split; reflexivity).
  destruct (d_ref d) as [r|]; [|split; reflexivity]. destruct b; [|split; reflexivity].
  pose proof (rsp_response_cbs s1 lf r p en rf (pl_val pl)) as H.
  destruct (process_response_cbs s1 lf r _) as [s2 o2]. cbn [snd fst] in *.
  rewrite rsp_app, H, app_nil_r. split; reflexivity.
Qed.

Lemma write_gate_spec s lf cli fn : write_gate s lf cli fn = writable lf fn && bound s lf cli.
Proof.
  unfold write_gate, writable. rewrite has_binding_bound.
  destruct (assoc_N fn (lf_ops lf)) as [[rd [|]]|]; reflexivity.
Qed.

Lemma nm_not_data fn : N.leb 11 fn = true -> fn_registered T_NODEMGMT fn = false.
Proof.
  intros H. apply N.leb_le in H. unfold fn_registered, fn_home.
  assert (E1 : N.eqb fn FN_DISC = false) by (apply N.eqb_neq; unfold FN_DISC; lia).
  assert (E2 : N.eqb fn FN_UC = false) by (apply N.eqb_neq; unfold FN_UC; lia).
  assert (E3 : N.eqb fn FN_DEST = false) by (apply N.eqb_neq; unfold FN_DEST; lia).
  rewrite E1, E2, E3. cbn [orb].
  repeat match goal with |- context [if ?b then _ else _] => destruct b end; reflexivity.
Qed.

(* every response the dispatcher sends is built by Sender.result / Sender.Reply from the request *)
Definition sent (p : N) (d : dgram) (o : obs) : Prop :=
  (exists e, o = send_result p d local_dev e) \/ (exists fn v, o = send_reply p d local_dev fn v).

Definition tail_of (p : N) (d : dgram) (err : option N) : list obs :=
  match err with
  | Some e => [send_result p d local_dev e]
  | None => if d_ack d && ack_body (d_body d) then [send_result p d local_dev 0] else []
  end.

Lemma sent_result p d e : sent p d (send_result p d local_dev e).
Proof. left. exists e. reflexivity. Qed.
Lemma sent_reply p d fn v : sent p d (send_reply p d local_dev fn v).
Proof. right. exists fn, v. reflexivity. Qed.

Ltac fs := repeat (first [apply Forall_nil | apply Forall_cons; [first [apply sent_result | apply sent_reply] |]]).

Lemma Forall_sent_tail p d err : Forall (sent p d) (tail_of p d err).
Proof.
  unfold tail_of. destruct err; [fs|].
  destruct (d_ack d && ack_body (d_body d)); fs.
Qed.

Lemma Forall_sent_fl p rf lf d c pl : Forall (sent p d) (fl_resp p rf lf d c pl).
Proof.
  unfold fl_resp. destruct c; try constructor.
  - destruct (_ && _); fs.
  - destruct (write_refused _ _ _); [|destruct (d_ack d)]; fs.
Qed.

Lemma nm_handle_bcmd b s pe en rf lf d c pl :
  d_body d = BCmd c pl -> (forall e, pl <> PResult e) ->
  nm_handle b s pe en rf lf d = nm_reply_callbacks b (p_ski pe) en rf lf d c pl (nm_dispatch s pe lf d c pl).
Proof.
  intros Hb Hn. unfold nm_handle. rewrite Hb. destruct pl; try reflexivity. exfalso. exact (Hn err eq_refl).
Qed.

Lemma Forall_sent_nm s p lf d c pl : Forall (sent p d) (nm_resp s p lf d c pl).
Proof. unfold nm_resp. destruct pl; destruct c; fs. Qed.

Definition rmap (l : list obs) : list resp := map resp_of l.

Lemma process_cmd_exact s pe en rf d :
  nm_ok s -> find_peer s (p_ski pe) = Some pe -> wf_dgram d = true ->
  remote_feature pe (d_src d) = Some (en, rf) ->
  exists rs, rsp (snd (process_cmd repaired s pe d)) = rs /\
             Forall (sent (p_ski pe) d) rs /\
             rmap rs = prescribed s pe en rf d /\
             (is_result_body (d_body d) = true -> rs = []).
Proof.
  intros Hnm Hp Hwf Hsrc. unfold process_cmd. rewrite Hsrc. cbn [repaired v_result_guard v_local_source v_nm_reply_cbs andb].
  unfold prescribed.
  destruct (local_feature s (d_dst d)) as [lf|] eqn:Hl.
  2:{ destruct (d_body d) as [e|pl0|c pl]; cbn [is_result_body snd].
      - exists []. repeat split; try constructor.
      - exists []. repeat split; try constructor.
      - eexists. split; [reflexivity|]. split; [fs|]. split; [reflexivity | discriminate]. }
  destruct (d_body d) as [e|pl0|c pl] eqn:Hb.
  - (* result *)
    cbn [negb is_result_body ack_body]. rewrite andb_false_r.
    assert (H : forall h : hres, rsp (snd (fst h)) = [] -> snd h = None ->
                rsp (snd (let '(s1, out, err) := h in
                          match err with Some e0 => (s1, out ++ []) | None => (s1, out ++ []) end)) = []).
    { intros [[s1 out] err] H1 H2. cbn [snd fst] in *. subst err. rewrite app_nil_r. exact H1. }
    exists []. split; [|repeat split; constructor].
    destruct (is_nm lf); apply H.
    + unfold nm_handle. rewrite Hb. apply process_result_resp.
    + unfold nm_handle. rewrite Hb. apply process_result_resp.
    + unfold fl_handle. rewrite Hb. apply process_result_resp.
    + unfold fl_handle. rewrite Hb. apply process_result_resp.
  - (* a result whose cmd is not a resultData element: rejected by every handler, and never answered *)
    cbn [negb is_result_body ack_body]. exists []. split; [|repeat split; constructor].
    destruct (is_nm lf).
    + unfold nm_handle. rewrite Hb. reflexivity.
    + unfold fl_handle. rewrite Hb. reflexivity.
  - (* the five other classifiers *)
    cbn [is_result_body].
    assert (Hnr : forall e, pl <> PResult e).
    { intros e ->. unfold wf_dgram in Hwf. rewrite Hb in Hwf. discriminate Hwf. }
    assert (Hfin : forall h : hres,
              rsp (snd (let '(s1, out, err) := h in
                        match err with
                        | Some e0 => (s1, out ++ [send_result (p_ski pe) d local_dev e0])
                        | None => (s1, out ++ (if d_ack d && ack_body (BCmd c pl) then [send_result (p_ski pe) d local_dev 0] else []))
                        end)) = rsp (snd (fst h)) ++ tail_of (p_ski pe) d (snd h)).
    { intros [[s1 out] err]. cbn [snd fst]. unfold tail_of. rewrite Hb. destruct err; cbn [snd]; rewrite rsp_app.
      - reflexivity.
      - destruct (d_ack d && ack_body (BCmd c pl)); reflexivity. }
    destruct (is_nm lf) eqn:Hisnm.
    + (* node management *)
      destruct (nm_feature s _ lf Hnm Hl Hisnm) as [Ht Hr].
      unfold accepted, answer, current. rewrite Hisnm, Ht, Hr. cbn [eqb_role negb andb].
      set (gate := match c with CWrite => write_gate s lf (rf_addr en rf) (pl_fn pl) | _ => true end).
      destruct gate eqn:Hg; cbn [negb].
      2:{ destruct c; try discriminate Hg. eexists. split; [reflexivity|]. split; [fs|].
          split; [|discriminate]. destruct pl; reflexivity. }
      rewrite Hfin. rewrite (nm_handle_bcmd true s pe en rf lf d c pl Hb Hnr).
      destruct (nm_reply_callbacks_spec true (p_ski pe) en rf lf d c pl (nm_dispatch s pe lf d c pl)) as [R1 R2].
      destruct (nm_dispatch_spec s pe lf d c pl Hp) as [D1 D2].
      rewrite R1, R2, D1, D2.
      eexists. split; [reflexivity|]. split; [apply Forall_app; split; [apply Forall_sent_nm | apply Forall_sent_tail]|].
      split; [|discriminate].
      unfold rmap, tail_of, nm_resp, nm_noerr, nm_errno. rewrite Hb.
      unfold wf_dgram in Hwf. rewrite Hb in Hwf.
      destruct pl; try discriminate Hwf; destruct c; cbn [pl_fn ack_body andb data_model_takes];
        try rewrite (nm_not_data _ Hwf);
        rewrite ?andb_true_r, ?andb_false_r; cbn;
        repeat match goal with
               | |- context [if ?b then _ else _] => destruct b eqn:?
               end; try reflexivity.
    + (* any other feature *)
      unfold accepted, answer, current. rewrite Hisnm. cbn [andb].
      destruct (fl_handle_bcmd s (p_ski pe) en rf lf d c pl Hb) as [F1 F2].
      assert (Hdone : forall (b : bool),
                b = true ->
                rmap (fl_resp (p_ski pe) rf lf d c pl ++ tail_of (p_ski pe) d (fl_err rf lf c pl)) =
                match c with
                | CRead => match (if negb (eqb_role (lf_role lf) RClient) && fn_registered (lf_type lf) (pl_fn pl)
                                  then Some (pl_fn pl, data_of lf (pl_fn pl)) else None) with
                           | Some (fn, v) => [RReply fn v] | None => [RErr] end
                | CWrite => (if b && fn_registered (lf_type lf) (pl_fn pl) && (N.eqb (d_sel d) 0 || fn_partial (pl_fn pl))
                             then if d_ack d then [ROk] else [] else [RErr])
                | CCall => [RErr]
                | CReply => (if fn_registered (rf_type rf) (pl_fn pl) then if d_ack d then [ROk] else [] else [RErr])
                | CNotify => (if fn_registered (rf_type rf) (pl_fn pl) && negb (partial_payload pl) then if d_ack d then [ROk] else [] else [RErr])
                end).
      { intros b ->. unfold rmap, tail_of, fl_resp, fl_err, write_refused. rewrite Hb.
        destruct c; cbn [ack_body andb]; rewrite ?andb_true_r, ?andb_false_r;
          try (destruct (fn_registered (lf_type lf) (pl_fn pl)); destruct (N.eqb (d_sel d) 0);
               destruct (fn_partial (pl_fn pl)); cbn [negb andb orb]);
          repeat match goal with
                 | |- context [if ?b then _ else _] => destruct b eqn:?
                 end; try reflexivity; try discriminate. }
      destruct c; cbn [negb data_model_takes].
      1,2,3,5: rewrite Hfin, F1, F2; eexists; (split; [reflexivity|]); (split;
                [apply Forall_app; split; [apply Forall_sent_fl | apply Forall_sent_tail]|]); (split; [|discriminate]);
               rewrite (Hdone true eq_refl); rewrite ?andb_true_r; reflexivity.
      rewrite write_gate_spec.
      destruct (writable lf (pl_fn pl) && bound s lf (rf_addr en rf)) eqn:Hg; cbn [negb].
      * rewrite Hfin, F1, F2. eexists. split; [reflexivity|]. split;
          [apply Forall_app; split; [apply Forall_sent_fl | apply Forall_sent_tail]|]. split; [|discriminate].
        rewrite (Hdone true eq_refl). reflexivity.
      * eexists. split; [reflexivity|]. split; [fs|]. split; [reflexivity | discriminate].
Qed.

(* ------------------------------------------------------------------ the monitor accepts every dispatcher step *)
Lemma eqb_resps_refl l : eqb_resps l l = true.
Proof.
  induction l as [|x l IH]; [reflexivity|]. cbn. rewrite IH.
  destruct x; cbn; rewrite ?N.eqb_refl; reflexivity.
Qed.

Lemma no_result_of_rsp out : rsp out = [] -> existsb is_result out = false.
Proof.
  induction out as [|o out IH]; [reflexivity|]. unfold rsp. cbn [filter existsb].
  destruct o; cbn [is_response is_result]; try discriminate; intros H; cbn [orb]; apply IH; exact H.
Qed.

Lemma sent_forallb p d rs (f : obs -> bool) :
  Forall (sent p d) rs ->
  (forall e, f (send_result p d local_dev e) = true) ->
  (forall fn v, f (send_reply p d local_dev fn v) = true) ->
  forallb f rs = true.
Proof.
  intros H H1 H2. induction H as [|o rs Ho _ IH]; [reflexivity|]. cbn [forallb]. rewrite IH, andb_true_r.
  destruct Ho as [[e ->]|[fn [v ->]]]; [apply H1 | apply H2].
Qed.

Lemma judge_of_exact s pe en rf d out rs :
  rsp out = rs -> Forall (sent (p_ski pe) d) rs -> rmap rs = prescribed s pe en rf d ->
  (is_result_body (d_body d) = true -> rs = []) ->
  judge_responses s (p_ski pe) pe en rf d out = [].
Proof.
  intros Hrs Hsent Hmap Hres. unfold judge_responses. fold (rsp out). rewrite Hrs.
  unfold rmap in Hmap. rewrite Hmap, eqb_resps_refl.
  rewrite (sent_forallb _ _ _ _ Hsent); [|intros; cbn; apply N.eqb_refl ..].
  rewrite (sent_forallb _ _ _ _ Hsent); [|intros; cbn; apply N.eqb_refl ..].
  rewrite (sent_forallb _ _ _ _ Hsent); [|intros; cbn; apply eqb_faddr_refl ..].
  rewrite (sent_forallb _ _ _ _ Hsent); [|intros; cbn; apply eqb_faddr_refl ..].
  destruct (is_result_body (d_body d)) eqn:Hb; [|reflexivity].
  rewrite (no_result_of_rsp out); [reflexivity|]. rewrite Hrs. apply Hres. reflexivity.
Qed.

Lemma process_cmd_judged s pe en rf d :
  nm_ok s -> find_peer s (p_ski pe) = Some pe -> wf_dgram d = true ->
  remote_feature pe (d_src d) = Some (en, rf) ->
  judge_responses s (p_ski pe) pe en rf d (snd (process_cmd repaired s pe d)) = [].
Proof.
  intros Hnm Hp Hwf Hsrc.
  destruct (process_cmd_exact s pe en rf d Hnm Hp Hwf Hsrc) as [rs [H1 [H2 [H3 H4]]]].
  eapply judge_of_exact; eauto.
Qed.

(* ------------------------------------------------------------------ the invariant: node management stays what it is *)
Definition psig (lf : lfeat) : eaddr * N * N * role := (lf_ent lf, lf_id lf, lf_type lf, lf_role lf).
Definition sig (s : st) := map psig (lfeats s).

Lemma find_sig e f : forall l l' lf,
  map psig l = map psig l' -> find (is_feat e f) l = Some lf ->
  exists lf', find (is_feat e f) l' = Some lf' /\ psig lf' = psig lf.
Proof.
  induction l as [|x l IH]; intros [|y l'] lf Hm Hf; try discriminate.
  cbn [map] in Hm. assert (Hxy : psig x = psig y) by congruence.
  assert (Hm' : map psig l = map psig l') by congruence. clear Hm. cbn [find] in *.
  assert (Hk : is_feat e f y = is_feat e f x).
  { unfold is_feat. assert (Hq1 : lf_ent x = lf_ent y) by (change (fst (fst (fst (psig x))) = fst (fst (fst (psig y)))); rewrite Hxy; reflexivity).
    assert (Hq2 : lf_id x = lf_id y) by (change (snd (fst (fst (psig x))) = snd (fst (fst (psig y)))); rewrite Hxy; reflexivity).
    rewrite Hq1, Hq2. reflexivity. }
  rewrite Hk. destruct (is_feat e f x).
  - injection Hf as <-. exists y. split; [reflexivity | symmetry; exact Hxy].
  - apply IH; assumption.
Qed.

Lemma nm_ok_sig s s' : sig s = sig s' -> nm_ok s -> nm_ok s'.
Proof.
  intros Hs [lf [Hf [Ht Hr]]]. destruct (find_sig _ _ _ _ _ Hs Hf) as [lf' [Hf' Hp]].
  exists lf'. split; [exact Hf'|].
  assert (Ht' : lf_type lf' = lf_type lf) by (change (snd (fst (psig lf')) = snd (fst (psig lf))); rewrite Hp; reflexivity).
  assert (Hr' : lf_role lf' = lf_role lf) by (change (snd (psig lf') = snd (psig lf)); rewrite Hp; reflexivity).
  rewrite Ht', Hr'. split; assumption.
Qed.

Lemma sig_upd_first P g l : (forall x, psig (g x) = psig x) -> map psig (upd_first P g l) = map psig l.
Proof.
  intros Hg. induction l as [|x l IH]; [reflexivity|]. cbn [upd_first]. destruct (P x); cbn [map]; [rewrite Hg | rewrite IH]; reflexivity.
Qed.

Lemma sig_upd_lfeat s e f g : (forall x, psig (g x) = psig x) -> sig (upd_lfeat s e f g) = sig s.
Proof. intros Hg. unfold sig, upd_lfeat, set_lfeats. cbn [lfeats]. apply sig_upd_first. exact Hg. Qed.

Lemma sig_response_cbs s lf r mk : sig (fst (process_response_cbs s lf r mk)) = sig s.
Proof.
  unfold process_response_cbs. destruct (assoc_N r (lf_rcb lf)); [|reflexivity]. cbn [fst].
  apply sig_upd_lfeat. intros x. reflexivity.
Qed.

Lemma sig_process_result s p en rf lf d e : sig (fst (fst (process_result s p en rf lf d e))) = sig s.
Proof.
  unfold process_result. destruct (d_ref d) as [r|]; [|reflexivity].
  pose proof (sig_response_cbs s lf r (mk_invoke lf r p en rf e)) as H.
  destruct (process_response_cbs s lf r _) as [s1 o1]. exact H.
Qed.

Lemma sig_fl_handle s p en rf lf d : sig (fst (fst (fl_handle s p en rf lf d))) = sig s.
Proof.
  unfold fl_handle. destruct (d_body d) as [e|pl0|c pl]; [apply sig_process_result|reflexivity|].
  destruct c.
  - destruct (eqb_role _ _); [reflexivity|]. destruct (negb _); reflexivity.
  - destruct (negb _); [reflexivity|]. destruct (d_ref d) as [r|]; [|reflexivity].
    pose proof (sig_response_cbs s lf r (mk_invoke lf r p en rf (pl_val pl))) as H.
    destruct (process_response_cbs s lf r _) as [s1 o1]. exact H.
  - destruct (negb _ || _); reflexivity.
  - unfold process_write. destruct (write_refused _ _ _); [reflexivity|]. cbn [fst]. apply sig_upd_lfeat. intros x. reflexivity.
  - reflexivity.
Qed.

Lemma sig_reg_result (r : st * bool) s : sig (fst r) = sig s -> sig (fst (fst (reg_result r))) = sig s.
Proof. destruct r as [s1 e]. cbn. auto. Qed.

Lemma sig_nm_dispatch s pe lf d c pl : sig (fst (fst (nm_dispatch s pe lf d c pl))) = sig s.
Proof.
  unfold nm_dispatch, err_general.
  destruct pl; destruct c; try reflexivity; apply sig_reg_result.
  - unfold sig. rewrite lfeats_discovery_reply. reflexivity.
  - unfold sig. rewrite lfeats_discovery_notify. reflexivity.
  - unfold add_subscription. repeat match goal with |- context [match ?x with _ => _ end] => destruct x end; reflexivity.
  - unfold remove_subscription. repeat match goal with |- context [match ?x with _ => _ end] => destruct x end; reflexivity.
  - unfold add_binding. repeat match goal with |- context [match ?x with _ => _ end] => destruct x end; reflexivity.
  - unfold remove_binding. repeat match goal with |- context [match ?x with _ => _ end] => destruct x end; reflexivity.
Qed.

Lemma sig_nm_reply_callbacks b p en rf lf d c pl (h : hres) :
  sig (fst (fst (nm_reply_callbacks b p en rf lf d c pl h))) = sig (fst (fst h)).
Proof.
  destruct h as [[s1 out] err]. unfold nm_reply_callbacks. cbn [fst].
  destruct err; [reflexivity|]. destruct c; try reflexivity. destruct (d_ref d) as [r|]; [|reflexivity].
  destruct b; [|reflexivity].
  pose proof (sig_response_cbs s1 lf r (mk_invoke lf r p en rf (pl_val pl))) as H.
  destruct (process_response_cbs s1 lf r _) as [s2 o2]. exact H.
Qed.

Lemma sig_nm_handle b s pe en rf lf d : sig (fst (fst (nm_handle b s pe en rf lf d))) = sig s.
Proof.
  unfold nm_handle. destruct (d_body d) as [e|pl0|c pl]; [apply sig_process_result|reflexivity|].
  destruct pl; try (rewrite sig_nm_reply_callbacks; apply sig_nm_dispatch). apply sig_process_result.
Qed.

Lemma sig_process_cmd v s pe d : sig (fst (process_cmd v s pe d)) = sig s.
Proof.
  unfold process_cmd. destruct (remote_feature pe (d_src d)) as [[en rf]|]; [|reflexivity].
  destruct (local_feature s (d_dst d)) as [lf|].
  2:{ destruct (_ && _); reflexivity. }
  destruct (negb _); [reflexivity|].
  destruct (is_nm lf).
  - pose proof (sig_nm_handle (v_nm_reply_cbs v) s pe en rf lf d) as H.
    destruct (nm_handle _ s pe en rf lf d) as [[s1 out] err]. destruct err; exact H.
  - pose proof (sig_fl_handle s (p_ski pe) en rf lf d) as H.
    destruct (fl_handle s (p_ski pe) en rf lf d) as [[s1 out] err]. destruct err; exact H.
Qed.

Lemma nm_ok_init : nm_ok init.
Proof. exists nodemgmt_feat. repeat split. Qed.

Lemma find_app_first {A} (P : A -> bool) l l' x : find P l = Some x -> find P (l ++ l') = Some x.
Proof. induction l as [|y l IH]; [discriminate|]. cbn. destruct (P y); [auto | apply IH]. Qed.

Lemma nm_ok_inbound v s p d : nm_ok s -> nm_ok (fst (inbound_v v s p d)).
Proof.
  intros Hnm. unfold inbound_v. destruct (find_peer s p) as [pe|]; [|exact Hnm].
  eapply nm_ok_sig; [|exact Hnm]. symmetry. apply sig_process_cmd.
Qed.

Lemma nm_ok_add_resp_cb s e f c cb : nm_ok s -> nm_ok (fst (add_resp_cb s e f c cb)).
Proof.
  intros Hnm. unfold add_resp_cb. destruct (find_lfeat s e (Some f)) as [lf|]; [|exact Hnm]. destruct (memN _ _); [exact Hnm|].
  cbn [fst]. eapply nm_ok_sig; [|exact Hnm]. symmetry. apply sig_upd_lfeat. intros x. reflexivity.
Qed.

Lemma nm_ok_run_evs v d l : forall s, nm_ok s -> nm_ok (fst (run_evs v s d l)).
Proof.
  induction l as [|e r IH]; intros s Hnm; [exact Hnm|]. cbn [run_evs].
  assert (H1 : nm_ok (fst (run_ev v s d e))).
  { destruct e; cbn [run_ev]; [apply nm_ok_inbound; exact Hnm|].
    unfold late_reg. destruct (d_ref d); [|exact Hnm]. destruct (fa_feat (d_dst d)); [|exact Hnm].
    apply nm_ok_add_resp_cb. exact Hnm. }
  destruct (run_ev v s d e) as [s1 o1]. cbn [fst] in H1. specialize (IH s1 H1).
  destruct (run_evs v s1 d r) as [s2 o2]. exact IH.
Qed.

Lemma nm_ok_run_regs e f c cb n : forall s, nm_ok s -> nm_ok (fst (run_regs s e f c cb n)).
Proof.
  induction n as [|n IH]; intros s Hnm; [exact Hnm|]. cbn [run_regs].
  pose proof (nm_ok_add_resp_cb s e f c cb Hnm) as H1.
  destruct (add_resp_cb s e f c cb) as [s1 o1]. cbn [fst] in H1. specialize (IH s1 H1).
  destruct (run_regs s1 e f c cb n) as [s2 o2]. exact IH.
Qed.

Lemma no_response_run_regs e f c cb n : forall s, existsb is_response (snd (run_regs s e f c cb n)) = false.
Proof.
  induction n as [|n IH]; intros s; [reflexivity|]. cbn [run_regs].
  assert (H1 : existsb is_response (snd (add_resp_cb s e f c cb)) = false).
  { unfold add_resp_cb. destruct (find_lfeat s e (Some f)); [destruct (memN _ _)|]; reflexivity. }
  destruct (add_resp_cb s e f c cb) as [s1 o1]. specialize (IH s1).
  destruct (run_regs s1 e f c cb n) as [s2 o2]. cbn [snd] in *. rewrite existsb_app, H1, IH. reflexivity.
Qed.

Lemma nm_ok_run_seq v l : forall s, nm_ok s -> nm_ok (fst (run_seq v s l)).
Proof.
  induction l as [|[p d] r IH]; intros s Hnm; [exact Hnm|]. cbn [run_seq].
  pose proof (nm_ok_inbound v s p d Hnm) as H1.
  destruct (inbound_v v s p d) as [s1 o1]. cbn [fst] in H1. specialize (IH s1 H1).
  destruct (run_seq v s1 r) as [s2 o2]. exact IH.
Qed.

Lemma nm_ok_step v s o : nm_ok s -> nm_ok (fst (step_v v s o)).
Proof.
  intros Hnm. destruct o; cbn [step_v].
  - destruct (existsb _ _); exact Hnm.
  - destruct (eqb_eaddr e [0%N]); exact Hnm.
  - destruct (find _ (lents s)) as [le|]; [|exact Hnm]. cbn [fst].
    destruct (existsb _ (lfeats s)); [exact Hnm|].
    destruct Hnm as [lf [Hf Hk]]. exists lf. split; [|exact Hk]. cbn [lfeats]. apply find_app_first. exact Hf.
  - cbn [fst]. eapply nm_ok_sig; [|exact Hnm]. symmetry. apply sig_upd_lfeat.
    intros x. destruct (eqb_role _ _); [reflexivity|]. destruct (assoc_N _ _); reflexivity.
  - destruct (find_lfeat s e (Some f)) as [lf|]; [|exact Hnm]. destruct (fn_registered _ _); [|exact Hnm].
    cbn [fst]. eapply nm_ok_sig; [|exact Hnm]. symmetry. apply sig_upd_lfeat. intros x. reflexivity.
  - destruct (find_lfeat s e (Some f)); exact Hnm.
  - cbn [fst]. eapply nm_ok_sig; [|exact Hnm]. unfold disconnect. destruct (find_peer s p); reflexivity.
  - cbn [fst]. eapply nm_ok_sig; [|exact Hnm]. unfold disconnect. destruct (find_peer s p); reflexivity.
  - apply (nm_ok_inbound v s p d Hnm).
  - apply (nm_ok_add_resp_cb s e f ctr cb Hnm).
  - destruct (find_lfeat s e (Some f)) as [lf|]; [|exact Hnm].
    cbn [fst]. eapply nm_ok_sig; [|exact Hnm]. symmetry. apply sig_upd_lfeat. intros x. reflexivity.
  - exact Hnm.
  - apply nm_ok_run_regs. exact Hnm.
  - pose proof (nm_ok_run_seq v l s Hnm) as H. destruct (run_seq v s l) as [s1 out]. exact H.
  - pose proof (nm_ok_run_evs v d (par_events ps late pf) s Hnm) as H.
    destruct (run_evs v s d (par_events ps late pf)) as [s1 out]. exact H.
Qed.

(* ------------------------------------------------------------------ whole histories *)
Lemma no_response_retn l : existsb is_response (map ORetN l) = false.
Proof. induction l as [|x l IH]; [reflexivity | exact IH]. Qed.

Lemma no_response_par_obs out : existsb is_response (par_obs out) = false.
Proof.
  induction out as [|o out IH]; [reflexivity|]. unfold par_obs. cbn [flat_map]. rewrite existsb_app. fold (par_obs out). rewrite IH.
  destruct o; reflexivity.
Qed.

Lemma no_response_seq_obs out : existsb is_response (seq_obs out) = false.
Proof.
  induction out as [|o out IH]; [reflexivity|]. unfold seq_obs. cbn [flat_map]. rewrite existsb_app. fold (seq_obs out). rewrite IH.
  destruct o; reflexivity.
Qed.

Lemma mon_step_ok s o : nm_ok s -> snd (mon {| w := s |} o (snd (step s o))) = [].
Proof.
  intros Hnm. unfold mon. cbn [w].
  destruct o; cbn [snd]; try (unfold step; cbn [step_v]).
  - destruct (existsb _ (lents s)); reflexivity.
  - destruct (eqb_eaddr e [0%N]); reflexivity.
  - destruct (find _ (lents s)); reflexivity.
  - reflexivity.
  - destruct (find_lfeat s e (Some f)); [destruct (fn_registered _ _)|]; reflexivity.
  - destruct (find_lfeat s e (Some f)); reflexivity.
  - reflexivity.
  - reflexivity.
  - destruct (find_peer s p) as [pe|] eqn:Hp; [|reflexivity].
    destruct (remote_feature pe (d_src d)) as [[en rf]|] eqn:Hsrc; [|reflexivity].
    destruct (wf_dgram d) eqn:Hwf; [|reflexivity]. cbn [snd].
    pose proof (find_peer_ski _ _ _ Hp) as Hk. subst p.
    apply process_cmd_judged; assumption.
  - destruct (find_lfeat s e (Some f)); [destruct (memN _ _)|]; reflexivity.
  - destruct (find_lfeat s e (Some f)); reflexivity.
  - cbn [snd]. rewrite existsb_app, no_response_retn. destruct (N.eqb t T_GENERIC); reflexivity.
  - cbn [snd]. rewrite no_response_run_regs. reflexivity.
  - destruct (run_seq repaired s l) as [s1 out]. cbn [snd]. rewrite no_response_seq_obs. reflexivity.
  - destruct (run_evs repaired s d (par_events ps late pf)) as [s1 out]. cbn [snd]. rewrite no_response_par_obs. reflexivity.
Qed.

Lemma run_accepted_from ops : forall s, nm_ok s -> accepted_trace (judge {| w := s |} (snd (run s ops))) = true.
Proof.
  induction ops as [|o r IH]; intros s Hnm; [reflexivity|].
  unfold run. cbn [run_with]. fold (run (fst (step s o)) r).
  pose proof (mon_step_ok s o Hnm) as Hv.
  destruct (step s o) as [s1 out] eqn:Hs. cbn [fst snd] in *.
  pose proof (nm_ok_step repaired s o Hnm) as Hnm1. fold step in Hnm1. rewrite Hs in Hnm1. cbn [fst] in Hnm1.
  specialize (IH s1 Hnm1). unfold run in IH.
  destruct (run_with step s1 r) as [s2 tr]. cbn [snd judge] in *.
  assert (Hm : fst (mon {| w := s |} o out) = {| w := s1 |}).
  { unfold mon. cbn [w]. rewrite Hs. cbn [fst].
    destruct o; try reflexivity.
    destruct (find_peer s p); [|reflexivity]. destruct (remote_feature _ _) as [[? ?]|]; [|reflexivity].
    destruct (wf_dgram d); reflexivity. }
  destruct (mon {| w := s |} o out) as [m1 v]. cbn [fst snd] in *. subst m1 v.
  cbn [accepted_trace forallb]. exact IH.
Qed.

Lemma run_accepted ops : accepted_trace (judge minit (snd (run init ops))) = true.
Proof. apply run_accepted_from. apply nm_ok_init. Qed.

Lemma nm_ok_run ops : forall s, nm_ok s -> nm_ok (fst (run s ops)).
Proof.
  induction ops as [|o r IH]; intros s Hnm; [exact Hnm|].
  unfold run. cbn [run_with]. pose proof (nm_ok_step repaired s o Hnm) as H1. fold step in H1.
  destruct (step s o) as [s1 out]. cbn [fst] in H1. specialize (IH s1 H1). unfold run in IH.
  destruct (run_with step s1 r) as [s2 tr]. exact IH.
Qed.

(* the statement of DESIGN.md C01 in explicit form, for every reachable state *)
Definition well_addressed (p : N) (d : dgram) (o : obs) : Prop :=
  o_peer o = p /\ o_ref o = d_ctr d /\ o_dst o = d_src d /\ o_src o = expected_src d.

Lemma sent_well_addressed p d o : sent p d o -> well_addressed p d o.
Proof. intros [[e ->]|[fn [v ->]]]; repeat split. Qed.

Definition responses_to (s : st) (p : N) (d : dgram) : list obs :=
  filter is_response (snd (step s (Inbound p d))).

Lemma exact_responses ops p d pe en rf :
  find_peer (fst (run init ops)) p = Some pe -> remote_feature pe (d_src d) = Some (en, rf) -> wf_dgram d = true ->
  map resp_of (responses_to (fst (run init ops)) p d) = prescribed (fst (run init ops)) pe en rf d /\
  Forall (well_addressed p d) (responses_to (fst (run init ops)) p d) /\
  (is_result_body (d_body d) = true -> responses_to (fst (run init ops)) p d = []).
Proof.
  set (s := fst (run init ops)). intros Hp Hsrc Hwf.
  assert (Hnm : nm_ok s) by (apply nm_ok_run, nm_ok_init).
  pose proof (find_peer_ski _ _ _ Hp) as Hk. subst p.
  destruct (process_cmd_exact s pe en rf d Hnm Hp Hwf Hsrc) as [rs' [H1 [H2 [H3 H4]]]].
  assert (E : responses_to s (p_ski pe) d = rs').
  { unfold responses_to, step. cbn [step_v]. rewrite Hp. exact H1. }
  rewrite E. split; [exact H3|]. split; [|exact H4].
  eapply Forall_impl; [|exact H2]. intros o. apply sent_well_addressed.
Qed.
