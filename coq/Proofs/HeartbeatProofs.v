(* C16 — proofs about Model/Heartbeat.v and Spec/HeartbeatSpec.v. *)
From Verif Require Import Base.Prelude Gen.GenConsts Model.Heartbeat Spec.HeartbeatSpec.

Arguments running : simpl never.

(* ------------------------------------------------------------------ the period *)

(* the generated constants satisfy what the bounds need: 0 <= subtrahend <= threshold
   (checked by computation on what the source says now) *)
Lemma consts_ok : 0 <= heartbeat_subtract_ms <= heartbeat_threshold_ms.
Proof. unfold heartbeat_subtract_ms, heartbeat_threshold_ms. split; apply Z.leb_le; vm_compute; reflexivity. Qed.

Lemma period_of_bounds thr sub d : 0 <= sub <= thr -> 0 < d -> 0 < period_of thr sub d <= d.
Proof. intros Ht Hd. unfold period_of. destruct (Z.ltb_spec thr d); lia. Qed.

Lemma period_bounds t : 0 < t -> 0 < period t <= t.
Proof. intros H. apply period_of_bounds; [exact consts_ok | exact H]. Qed.

Lemma period_ns_bounds d : 0 < d -> 0 < period_ns d <= d.
Proof. intros H. pose proof consts_ok. apply period_of_bounds; [lia | exact H]. Qed.

Lemma period_above t : heartbeat_threshold_ms < t -> period t = t - heartbeat_subtract_ms.
Proof. intros H. unfold period, period_of. destruct (Z.ltb_spec heartbeat_threshold_ms t); lia. Qed.

Lemma period_upto t : t <= heartbeat_threshold_ms -> period t = t.
Proof. intros H. unfold period, period_of. destruct (Z.ltb_spec heartbeat_threshold_ms t); lia. Qed.

(* the millisecond model is the nanosecond computation of the code *)
Lemma period_ns_ms t : period_ns (t * 1000000) = period t * 1000000.
Proof.
  unfold period_ns, period, period_of.
  destruct (Z.ltb_spec (heartbeat_threshold_ms * 1000000) (t * 1000000));
    destruct (Z.ltb_spec heartbeat_threshold_ms t); lia.
Qed.

(* the announced timeout: the configured one truncated to tenths of a second *)
Lemma announced_bounds t : 100 <= t -> 100 <= announced t <= t /\ announced t mod 100 = 0 /\ t - announced t < 100.
Proof.
  intros H. unfold announced. pose proof (Z.div_mod t 100 ltac:(lia)) as Hd.
  pose proof (Z.mod_pos_bound t 100 ltac:(lia)) as Hm.
  assert (Hq : 1 <= t / 100) by (apply Z.div_le_lower_bound; lia).
  split; [nia|]. split; [apply Z.mod_mul; lia|nia].
Qed.

Lemma announced_pos t : 100 <= t -> 0 < announced t.
Proof. intros H. pose proof (announced_bounds t H). lia. Qed.

Lemma announced_multiple t : t mod 100 = 0 -> announced t = t.
Proof. intros H. unfold announced. pose proof (Z.div_mod t 100 ltac:(lia)). lia. Qed.

(* ------------------------------------------------------------------ invariants *)

Record StrInv (s : st) : Prop := {
  si_live : forall g, In g (streams s) -> memN g (closed s) = false -> cur s = Some g;
  si_cur : forall g, cur s = Some g -> memN g (closed s) = false -> In g (streams s);
  si_closed : forall g, In g (closed s) -> (g < nextg s)%N;
  si_curlt : forall g, cur s = Some g -> (g < nextg s)%N;
  si_feat : streams s <> [] -> feature s = true
}.

Definition waiter_ok (s : st) (t : N) : Prop :=
  match wait s with
  | Some (t2, c2) => t2 <> t /\ (is_start c2 = true -> feature s = true)
  | None => True
  end.

Definition CtlInv (s : st) : Prop :=
  match hold s with
  | None => wait s = None
  | Some (t, AtChecked c) =>
      running s = true /\ is_query c = false /\ (is_start c = true -> feature s = true) /\ waiter_ok s t
  | Some (t, AtStopped c) =>
      running s = false /\ is_start c = true /\ feature s = true /\ waiter_ok s t
  end.

Definition SI (s : st) : Prop := StrInv s /\ CtlInv s /\ 0 < tmo s.

Definition pend_of (s : st) : list (N * (call * N)) :=
  match hold s with
  | Some (t, AtChecked c) => [(t, (c, 1%N))]
  | Some (t, AtStopped c) => [(t, (c, 2%N))]
  | None => []
  end ++
  match wait s with Some (t, c) => [(t, (c, 0%N))] | None => [] end.

(* the monitor's state is a function of the model's state (and of the in-flight allowance) *)
Definition mof (s : st) (a : bool) : mst :=
  {| m_conf := conf s; m_tmo := tmo s; m_pend := pend_of s;
     m_cur := if running s then cur s else None;
     m_allow := a; m_last := counter s; m_data := data s; m_subs := subs s; m_feat := feature s |}.

Lemma strinv_same s s' :
  StrInv s -> cur s' = cur s -> closed s' = closed s -> nextg s' = nextg s -> streams s' = streams s ->
  (feature s = true -> feature s' = true) -> StrInv s'.
Proof.
  intros [H1 H2 H3 H5 H4] Ec El En Es Ef. split; rewrite ?Ec, ?El, ?En, ?Es; auto.
Qed.

Lemma running_true s : running s = true -> exists g, cur s = Some g /\ memN g (closed s) = false.
Proof.
  unfold running. destruct (cur s) as [g|]; [|discriminate].
  intros H. exists g. split; [reflexivity|]. destruct (memN g (closed s)); [discriminate|reflexivity].
Qed.

Lemma running_false_cur s g : running s = false -> cur s = Some g -> memN g (closed s) = true.
Proof. unfold running. intros H E. rewrite E in H. destruct (memN g (closed s)); [reflexivity|discriminate]. Qed.

Lemma running_close s g : cur s = Some g -> running (do_close s g) = false.
Proof. intros E. unfold running. cbn. rewrite E. cbn. rewrite N.eqb_refl. reflexivity. Qed.

Lemma strinv_close s g : StrInv s -> cur s = Some g -> StrInv (do_close s g).
Proof.
  intros [H1 H2 H3 H5 H4] E. split; cbn -[memN].
  - intros g' Hin Hm. apply orb_false_iff in Hm. apply H1; tauto.
  - intros g' Ec Hm. apply orb_false_iff in Hm. apply H2; tauto.
  - intros g' [<-|Hin]; auto.
  - exact H5.
  - exact H4.
Qed.

Lemma running_make s : StrInv s -> running (do_make s) = true.
Proof.
  intros Hs. unfold running. cbn -[memN].
  destruct (memN (nextg s) (closed s)) eqn:Em; [|reflexivity].
  apply memN_In in Em. apply (si_closed _ Hs) in Em. lia.
Qed.

Lemma strinv_make s : StrInv s -> running s = false -> feature s = true -> StrInv (do_make s).
Proof.
  intros Hs Hr Hf. pose proof Hs as [H1 H2 H3 H5 H4]. split; cbn -[memN].
  - intros g Hin Hm. apply in_app_or in Hin. destruct Hin as [Hin|[<-|[]]]; [|reflexivity].
    exfalso. specialize (H1 g Hin Hm). pose proof (running_false_cur s g Hr H1) as Hc. congruence.
  - intros g Ec Hm. injection Ec as <-. apply in_or_app. right. left. reflexivity.
  - intros g Hin. specialize (H3 g Hin). lia.
  - intros g Ec. injection Ec as <-. lia.
  - intros _. exact Hf.
Qed.

Lemma in_remove_g g x l : In x (remove_g g l) <-> In x l /\ x <> g.
Proof.
  unfold remove_g. rewrite filter_In. split; intros [Ha Hb]; split; auto.
  - intros ->. rewrite N.eqb_refl in Hb. discriminate.
  - destruct (N.eqb_spec x g); [contradiction|reflexivity].
Qed.

Lemma strinv_exit s g :
  StrInv s -> memN g (closed s) = true -> StrInv (set_streams s (remove_g g (streams s))).
Proof.
  intros [H1 H2 H3 H5 H4] Hc. split; cbn -[memN].
  - intros g' Hin Hm. apply in_remove_g in Hin. apply H1; tauto.
  - intros g' Ec Hm. apply in_remove_g. split; [auto|]. intros ->. congruence.
  - exact H3.
  - exact H5.
  - intros Hne. apply H4. intros E. rewrite E in Hne. apply Hne. reflexivity.
Qed.

(* ------------------------------------------------------------------ one step *)

Definition Good (s1 : st) (m1 : mst) (v : verdict) : Prop :=
  v = [] /\ SI s1 /\ exists a1, m1 = mof s1 a1.

Lemma mof_refresh s a src :
  (src = None \/ exists g, src = Some g /\ running s = true /\ cur s = Some g) ->
  judge_refresh (mof s a) src (N.succ (counter s)) (nnotify s) true (tmo s) = (mof (fst (do_refresh s)) a, []).
Proof.
  intros Hsrc. unfold judge_refresh.
  assert (Hv : (let '(v, a0) :=
                 match src with
                 | None => ([], m_allow (mof s a))
                 | Some g =>
                     if eqb_oN (Some g) (m_cur (mof s a)) then ([], m_allow (mof s a))
                     else if m_allow (mof s a) then ([], false)
                     else ((if is_some (m_cur (mof s a)) then [CL_STREAMS] else [CL_SILENCE]), false)
                 end in (v, a0)) = (@nil Z, a)).
  { destruct Hsrc as [->|[g [-> [Hr Hc]]]]; [reflexivity|].
    cbn. rewrite Hr, Hc. cbn. rewrite N.eqb_refl. reflexivity. }
  destruct (match src with None => _ | Some g => _ end) as [v a0].
  injection Hv as -> ->.
  cbn [m_last m_subs m_tmo mof m_conf m_pend m_cur m_feat].
  assert (E1 : N.ltb (counter s) (N.succ (counter s)) = true) by (apply N.ltb_lt; lia).
  rewrite E1. unfold nnotify. rewrite N.eqb_refl, Z.eqb_refl. cbn.
  unfold mof. cbn. reflexivity.
Qed.

Lemma si_refresh s : SI s -> SI (fst (do_refresh s)).
Proof.
  intros [Hs [Hc Ht]]. split; [|split].
  - apply (strinv_same s); auto.
  - exact Hc.
  - exact Ht.
Qed.

Lemma tick_ok s a g : SI s ->
  let '(s1, out) := step_tick s g in
  let '(m1, v) := mon_tick (mof s a) g out in Good s1 m1 v.
Proof.
  intros HSI. pose proof HSI as [Hs [Hc Ht]]. unfold step_tick.
  destruct (memN g (streams s)) eqn:Hin.
  - apply memN_In in Hin.
    destruct (memN g (closed s)) eqn:Hcl.
    + (* exits *)
      cbn -[memN remove_g].
      assert (Hne : eqb_oN (Some g) (if running s then cur s else None) = false).
      { destruct (running s) eqn:Hr; [|reflexivity].
        destruct (running_true s Hr) as [g' [Eg Hg]]. rewrite Eg. cbn.
        destruct (N.eqb_spec g g'); [subst; congruence|reflexivity]. }
      cbn in Hne. rewrite Hne. split; [reflexivity|]. split.
      * split; [|split]; [apply strinv_exit; assumption| exact Hc | exact Ht].
      * exists a. reflexivity.
    + assert (Ecur : cur s = Some g) by (apply (si_live _ Hs); assumption).
      assert (Hr : running s = true) by (unfold running; rewrite Ecur, Hcl; reflexivity).
      assert (Hf : feature s = true).
      { apply (si_feat _ Hs). intros E. rewrite E in Hin. exact Hin. }
      rewrite Hf. cbn [do_refresh mon_tick].
      pose proof (mof_refresh s a (Some g)) as Hj. cbn [do_refresh fst] in Hj.
      rewrite Hj by (right; exists g; auto).
      split; [reflexivity|]. split; [exact (si_refresh s HSI)|]. exists a. reflexivity.
  - cbn -[memN].
    assert (Hne : eqb_oN (Some g) (if running s then cur s else None) = false).
    { destruct (running s) eqn:Hr; [|reflexivity].
      destruct (running_true s Hr) as [g' [Eg Hg]]. rewrite Eg. cbn.
      destruct (N.eqb_spec g g'); [|reflexivity]. subst g'.
      apply (si_cur _ Hs) in Eg; [|assumption]. apply memN_In in Eg. congruence. }
    cbn in Hne. rewrite Hne. split; [reflexivity|]. split; [exact HSI|]. exists a. reflexivity.
Qed.

Lemma run_live k : forall s a g,
  SI s -> memN g (streams s) = true -> memN g (closed s) = false -> feature s = true ->
  let '(s1, o) := run_ticks k s g in
  let '(m1, v) := mon_run (mof s a) g k o in Good s1 m1 v.
Proof.
  induction k as [|k IH]; intros s a g HSI Hin Hcl Hf.
  - cbn [run_ticks mon_run]. pose proof HSI as [Hs [Hc Ht]].
    pose proof (period_bounds (tmo s) Ht) as [Hp1 Hp2].
    cbn [m_tmo mof Nat.eqb shape app].
    apply Z.ltb_lt in Hp1. apply Z.leb_le in Hp2. rewrite Hp1, Hp2. cbn.
    split; [reflexivity|]. split; [exact HSI|]. exists a. reflexivity.
  - cbn [run_ticks]. unfold step_tick. rewrite Hin, Hcl, Hf. cbn [do_refresh].
    specialize (IH (fst (do_refresh s)) a g (si_refresh s HSI) Hin Hcl Hf).
    cbn [do_refresh fst] in IH.
    destruct (run_ticks k _ g) as [s2 o2].
    cbn [app mon_run].
    assert (Ecur : cur s = Some g).
    { apply (si_live _ (proj1 HSI)); [apply memN_In; exact Hin|exact Hcl]. }
    assert (Hr : running s = true) by (unfold running; rewrite Ecur, Hcl; reflexivity).
    pose proof (mof_refresh s a (Some g)) as Hj. cbn [do_refresh fst] in Hj.
    rewrite Hj by (right; exists g; auto).
    destruct (mon_run _ g k o2) as [m2 v2]. cbn [app]. exact IH.
Qed.

Lemma run_ok s a g k : SI s -> Nat.leb 2 k = true ->
  let '(s1, o) := run_ticks k s g in
  let '(m1, v) := match o with
                  | Refreshed _ _ _ _ :: _ => mon_run (mof s a) g k o
                  | _ => mon_tick (mof s a) g o
                  end in Good s1 m1 v.
Proof.
  intros HSI Hk. destruct k as [|k]; [discriminate|].
  destruct (memN g (streams s)) eqn:Hin; [destruct (memN g (closed s)) eqn:Hcl; [|destruct (feature s) eqn:Hf]|].
  4: { pose proof (tick_ok s a g HSI) as Ht. cbn [run_ticks]. unfold step_tick in *. rewrite Hin in *. exact Ht. }
  1: { pose proof (tick_ok s a g HSI) as Ht. cbn [run_ticks]. unfold step_tick in *. rewrite Hin, Hcl in *. exact Ht. }
  2: { pose proof (tick_ok s a g HSI) as Ht. cbn [run_ticks]. unfold step_tick in *. rewrite Hin, Hcl, Hf in *. exact Ht. }
  pose proof (run_live (S k) s a g HSI Hin Hcl Hf) as Hl.
  cbn [run_ticks] in *. unfold step_tick in *. rewrite Hin, Hcl, Hf in *. cbn [do_refresh] in *.
  destruct (run_ticks k _ g) as [s2 o2]. cbn [app] in *. exact Hl.
Qed.

(* ------------------------------------------------------------------ critical sections *)

Definition mofp (s : st) (a : bool) (p : list (N * (call * N))) : mst := with_pend (mof s a) p.

Lemma is_some_cur s : is_some (if running s then cur s else None) = running s.
Proof.
  destruct (running s) eqn:Hr; [|reflexivity].
  destruct (running_true s Hr) as [g [-> _]]. reflexivity.
Qed.

Ltac si_same s := split; [apply (strinv_same s); auto | split; [|assumption]].

Ltac mofeq :=
  unfold mofp, with_pend, mof, pend_of, running in *; cbn -[memN];
  repeat match goal with H : _ = _ |- _ => rewrite H end; reflexivity.

Ltac good4 :=
  split; [reflexivity | split; [reflexivity | split; [split; [|split; [|assumption]] | ]]].

Lemma locked_ok s a t c p0 :
  hold s = None -> wait s = None -> StrInv s -> 0 < tmo s ->
  (is_start c = true -> feature s = true) ->
  (p0 = [] \/ p0 = [(t, (c, 0%N))]) ->
  let '(s1, o) := run_locked s t c in
  let '(m1, v, rest) := advance (mofp s a p0) t c o in
  v = [] /\ rest = [] /\ SI s1 /\ m1 = mof s1 a.
Proof.
  intros Hh Hw Hs Ht Hf Hp.
  assert (Hrem : remove_N t p0 = []).
  { destruct Hp as [->| ->]; [reflexivity|]. cbn. rewrite N.eqb_refl. reflexivity. }
  assert (Hupd : forall h, upd_pend t (c, h) p0 = [(t, (c, h))]).
  { intros h. destruct Hp as [->| ->]; [reflexivity|]. cbn. rewrite N.eqb_refl. reflexivity. }
  assert (Hpend : pend_of s = []) by (unfold pend_of; rewrite Hh, Hw; reflexivity).
  destruct c; cbn [run_locked].
  - (* IsRunning *)
    cbn [advance mofp with_pend mof m_pend m_cur]. rewrite Hrem. rewrite is_some_cur.
    rewrite Bool.eqb_reflx. cbn. good4.
    + exact Hs.
    + unfold CtlInv. rewrite Hh. exact Hw.
    + unfold mof. rewrite Hpend. reflexivity.
  - (* Stop *)
    destruct (running s) eqn:Hr.
    + cbn [advance mofp with_pend mof m_pend]. rewrite Hupd. cbn. good4.
      * apply (strinv_same s); auto.
      * unfold CtlInv, waiter_ok. cbn. rewrite Hw. repeat split; auto; try discriminate.
      * mofeq.
    + cbn [advance mofp with_pend mof m_pend m_cur]. rewrite Hrem, Hr. cbn. good4.
      * exact Hs.
      * unfold CtlInv. rewrite Hh. exact Hw.
      * unfold mof. rewrite Hpend. reflexivity.
  - (* Start *)
    destruct (running s) eqn:Hr.
    + cbn [advance mofp with_pend mof m_pend]. rewrite Hupd. cbn. good4.
      * apply (strinv_same s); auto.
      * unfold CtlInv, waiter_ok. cbn. rewrite Hw. repeat split; auto.
      * mofeq.
    + cbn [advance mofp with_pend mof m_pend]. rewrite Hupd. cbn. good4.
      * apply (strinv_same s); auto.
      * unfold CtlInv, waiter_ok. cbn. rewrite Hw. repeat split; auto.
      * mofeq.
  - (* AddFn *)
    destruct (running s) eqn:Hr.
    + cbn [advance mofp with_pend mof m_pend]. rewrite Hupd. cbn. good4.
      * apply (strinv_same s); auto.
      * unfold CtlInv, waiter_ok. cbn. rewrite Hw. repeat split; auto.
      * mofeq.
    + cbn [advance mofp with_pend mof m_pend]. rewrite Hupd. cbn. good4.
      * apply (strinv_same s); auto.
      * unfold CtlInv, waiter_ok. cbn. rewrite Hw. repeat split; auto.
      * mofeq.
  - (* RemoveEntity *)
    destruct (running s) eqn:Hr.
    + cbn [advance mofp with_pend mof m_pend]. rewrite Hupd. cbn. good4.
      * apply (strinv_same s); auto.
      * unfold CtlInv, waiter_ok. cbn. rewrite Hw. repeat split; auto; try discriminate.
      * mofeq.
    + cbn [advance mofp with_pend mof m_pend m_cur]. rewrite Hrem, Hr. cbn. good4.
      * apply (strinv_same s); auto.
      * unfold CtlInv. cbn. rewrite Hh. exact Hw.
      * mofeq.
Qed.

Lemma release_ok s a :
  hold s = None -> StrInv s -> 0 < tmo s ->
  match wait s with Some (_, c2) => is_start c2 = true -> feature s = true | None => True end ->
  let '(s1, o) := release s in
  let '(m1, v) := after_return (mof s a) o in Good s1 m1 v.
Proof.
  intros Hh Hs Ht Hwf. unfold release.
  destruct (wait s) as [[t2 c2]|] eqn:Hw.
  - assert (Em : mof s a = mofp (set_wait s None) a [(t2, (c2, 0%N))]) by mofeq.
    pose proof (locked_ok (set_wait s None) a t2 c2 [(t2, (c2, 0%N))]) as Hl.
    destruct (run_locked (set_wait s None) t2 c2) as [s1 o].
    cbn [after_return]. replace (m_pend (mof s a)) with [(t2, (c2, 0%N))] by (rewrite Em; reflexivity).
    cbn [assoc_N]. rewrite N.eqb_refl. rewrite Em.
    destruct (advance _ t2 c2 o) as [[m1 v] rest].
    destruct Hl as [-> [-> [HSI ->]]]; auto.
    + apply (strinv_same s); auto.
    + split; [reflexivity|]. split; [exact HSI|]. exists a. reflexivity.
  - cbn. split; [reflexivity|]. split; [|exists a; reflexivity].
    split; [exact Hs|split; [|exact Ht]]. unfold CtlInv. rewrite Hh. exact Hw.
Qed.

Lemma running_set_hold s h : running (set_hold s h) = running s.
Proof. reflexivity. Qed.
Lemma running_set_removed s : running (set_removed s) = running s.
Proof. reflexivity. Qed.
Lemma running_set_wait s w : running (set_wait s w) = running s.
Proof. reflexivity. Qed.

(* the monitor state after the holder t left the critical section *)
Lemma mof_leave s s' a a' t c h cu :
  hold s = Some (t, match h with 1%N => AtChecked c | _ => AtStopped c end) -> (h = 1 \/ h = 2)%N ->
  waiter_ok s t ->
  hold s' = None -> wait s' = wait s -> conf s' = conf s -> tmo s' = tmo s ->
  counter s' = counter s -> data s' = data s -> subs s' = subs s -> feature s' = feature s ->
  (if running s' then cur s' else None) = cu ->
  with_cur (with_pend (mof s a) (remove_N t (m_pend (mof s a)))) cu a' = mof s' a'.
Proof.
  intros Hh Hh12 Hwo Hh' Hw' E1 E2 E3 E4 E5 E6 Ecu.
  unfold mof, with_cur, with_pend, pend_of. cbn [m_conf m_tmo m_pend m_cur m_allow m_last m_data m_subs m_feat].
  rewrite Hh', Hw', E1, E2, E3, E4, E5, E6, Ecu, Hh.
  assert (Ep : remove_N t
    ((match match h with 1%N => AtChecked c | _ => AtStopped c end with
      | AtChecked c0 => [(t, (c0, 1%N))] | AtStopped c0 => [(t, (c0, 2%N))] end) ++
     match wait s with Some (t0, c0) => [(t0, (c0, 0%N))] | None => [] end) =
     ([] ++ match wait s with Some (t0, c0) => [(t0, (c0, 0%N))] | None => [] end)).
  { unfold waiter_ok in Hwo. destruct (wait s) as [[t2 c2]|].
    - destruct Hwo as [Hne _].
      destruct Hh12 as [-> | ->]; cbn; rewrite N.eqb_refl; destruct (N.eqb_spec t t2); congruence.
    - destruct Hh12 as [-> | ->]; cbn; rewrite N.eqb_refl; reflexivity. }
  rewrite Ep. reflexivity.
Qed.

Lemma pend_hold_assoc s t p :
  hold s = Some (t, p) ->
  assoc_N t (pend_of s) = Some (match p with AtChecked c => (c, 1%N) | AtStopped c => (c, 2%N) end).
Proof. intros Hh. unfold pend_of. rewrite Hh. destruct p; cbn; rewrite N.eqb_refl; reflexivity. Qed.

Lemma resume_ok s a t : SI s ->
  let '(s1, o) := step_resume s t in
  let '(m1, v) := mon_resume (mof s a) t o in Good s1 m1 v.
Proof.
  intros HSI. pose proof HSI as [Hs [Hc Ht]]. unfold step_resume.
  destruct (hold s) as [[th p]|] eqn:Hh.
  - destruct (N.eqb_spec t th) as [->|Hne].
    + unfold mon_resume. cbn [m_pend mof]. rewrite (pend_hold_assoc s th p Hh).
      unfold CtlInv in Hc. rewrite Hh in Hc.
      destruct p as [c|c].
      * destruct Hc as [Hr [Hq [Hsf Hwo]]].
        destruct (running_true s Hr) as [g [Eg Hg]]. rewrite Eg, Hg.
        assert (Hs1 : StrInv (do_close s g)) by (apply strinv_close; assumption).
        assert (Hr1 : running (do_close s g) = false) by (apply running_close; assumption).
        destruct c; try discriminate.
        -- (* Stop *)
           unfold finish.
           pose proof (release_ok (set_hold (do_close s g) None) true) as Hrel.
           destruct (release (set_hold (do_close s g) None)) as [s2 o2].
           unfold progress. cbn [advance].
           change (with_pend (with_cur (mof s a) None true) (remove_N th (m_pend (with_cur (mof s a) None true))))
             with (with_cur (with_pend (mof s a) (remove_N th (m_pend (mof s a)))) None true).
           rewrite (mof_leave s (set_hold (do_close s g) None) a true th CStop 1%N None); auto.
           ++ cbn [is_query is_start negb andb shape app].
              destruct (after_return _ o2) as [m2 v2]. cbn [app]. apply Hrel; auto.
              ** apply (strinv_same (do_close s g)); auto.
              ** unfold waiter_ok in Hwo. cbn [wait set_hold do_close feature].
                 destruct (wait s) as [[t2 c2]|]; [tauto|exact I].
           ++ rewrite running_set_hold, Hr1. reflexivity.
        -- (* Start *)
           unfold progress. cbn [advance after_return m_pend with_cur mof].
           unfold pend_of. rewrite Hh. cbn. rewrite N.eqb_refl. cbn.
           split; [reflexivity|]. split.
           ++ split; [apply (strinv_same (do_close s g)); auto|split; [|exact Ht]].
              unfold CtlInv. cbn [hold set_hold]. rewrite running_set_hold, Hr1.
              repeat split; auto.
           ++ exists true. unfold mof, with_pend, with_cur, pend_of. cbn -[memN running].
              rewrite running_set_hold, Hr1. reflexivity.
        -- (* AddFn *)
           unfold progress. cbn [advance after_return m_pend with_cur mof].
           unfold pend_of. rewrite Hh. cbn. rewrite N.eqb_refl. cbn.
           split; [reflexivity|]. split.
           ++ split; [apply (strinv_same (do_close s g)); auto|split; [|exact Ht]].
              unfold CtlInv. cbn [hold set_hold]. rewrite running_set_hold, Hr1.
              repeat split; auto.
           ++ exists true. unfold mof, with_pend, with_cur, pend_of. cbn -[memN running].
              rewrite running_set_hold, Hr1. reflexivity.
        -- (* RemoveEntity *)
           unfold finish.
           pose proof (release_ok (set_removed (set_hold (do_close s g) None)) true) as Hrel.
           destruct (release (set_removed (set_hold (do_close s g) None))) as [s2 o2].
           unfold progress. cbn [advance].
           change (with_pend (with_cur (mof s a) None true) (remove_N th (m_pend (with_cur (mof s a) None true))))
             with (with_cur (with_pend (mof s a) (remove_N th (m_pend (mof s a)))) None true).
           rewrite (mof_leave s (set_removed (set_hold (do_close s g) None)) a true th CRemoveEntity 1%N None); auto.
           ++ cbn [is_query is_start negb andb shape app].
              destruct (after_return _ o2) as [m2 v2]. cbn [app]. apply Hrel; auto.
              ** apply (strinv_same (do_close s g)); auto.
              ** unfold waiter_ok in Hwo. cbn [wait set_hold do_close feature set_removed].
                 destruct (wait s) as [[t2 c2]|]; [tauto|exact I].
           ++ rewrite running_set_removed, running_set_hold, Hr1. reflexivity.
      * destruct Hc as [Hr [Hst [Hf Hwo]]].
        assert (Hs1 : StrInv (do_make s)) by (apply strinv_make; assumption).
        assert (Hr1 : running (do_make s) = true) by (apply running_make; assumption).
        unfold finish.
        assert (Es0 : match c with CRemoveEntity => set_removed (set_hold (do_make s) None) | _ => set_hold (do_make s) None end
                      = set_hold (do_make s) None) by (destruct c; try discriminate; reflexivity).
        rewrite Es0.
        pose proof (release_ok (set_hold (do_make s) None) a) as Hrel.
        destruct (release (set_hold (do_make s) None)) as [s2 o2].
        unfold progress. cbn [advance].
        replace (m_allow (mof s a)) with a by reflexivity.
        rewrite (mof_leave s (set_hold (do_make s) None) a a th c 2%N (Some (nextg s))); auto.
        -- rewrite Hst. replace (m_cur (mof s a)) with (@None N) by (cbn; rewrite Hr; reflexivity).
           cbn [shape is_some app].
           destruct (after_return _ o2) as [m2 v2]. cbn [app]. apply Hrel; auto.
           ++ apply (strinv_same (do_make s)); auto.
           ++ unfold waiter_ok in Hwo. cbn [wait set_hold do_make feature].
              destruct (wait s) as [[t2 c2]|]; [tauto|exact I].
        -- rewrite running_set_hold, Hr1. reflexivity.
    + (* not the holder *)
      unfold mon_resume. cbn [m_pend mof].
      assert (Ea : assoc_N t (pend_of s) = None \/ exists c0, assoc_N t (pend_of s) = Some (c0, 0%N)).
      { unfold pend_of. rewrite Hh. destruct p; cbn; (destruct (N.eqb_spec t th); [congruence|]);
          destruct (wait s) as [[t2 c2]|]; cbn; auto; destruct (N.eqb t t2); eauto. }
      destruct Ea as [Ea|[c0 Ea]]; rewrite Ea; cbn;
        (split; [reflexivity|]; split; [exact HSI|exists a; reflexivity]).
  - unfold CtlInv in Hc. rewrite Hh in Hc.
    unfold mon_resume. cbn [m_pend mof]. unfold pend_of. rewrite Hh, Hc. cbn.
    split; [reflexivity|]. split; [exact HSI|exists a; reflexivity].
Qed.

Definition lock_head (o : list obs) : Prop :=
  match o with RetB _ :: _ | Parked _ :: _ | Done :: _ => True | _ => False end.

Lemma lockpart_ok s a t c :
  hold s = None -> wait s = None -> StrInv s -> 0 < tmo s -> (is_start c = true -> feature s = true) ->
  let '(s1, o) := run_locked s t c in
  lock_head o /\ let '(m1, v) := lock_part (mof s a) t c o in Good s1 m1 v.
Proof.
  intros Hh Hw Hs Ht Hf.
  pose proof (locked_ok s a t c [] Hh Hw Hs Ht Hf (or_introl eq_refl)) as Hl.
  assert (Em : mofp s a [] = mof s a) by mofeq. rewrite Em in Hl.
  destruct (run_locked s t c) as [s1 o] eqn:Er.
  assert (Hhd : lock_head o).
  { unfold run_locked in Er. destruct c; try destruct (running s); injection Er as <- <-; exact I. }
  split; [exact Hhd|].
  assert (El : lock_part (mof s a) t c o = progress (mof s a) t c o).
  { destruct o as [|x r]; [destruct Hhd|]. destruct x; try destruct Hhd; reflexivity. }
  rewrite El. unfold progress.
  destruct (advance (mof s a) t c o) as [[m1 v] rest].
  destruct Hl as [-> [-> [HSI ->]]]. cbn.
  split; [reflexivity|]. split; [exact HSI|exists a; reflexivity].
Qed.

Lemma blocked_ok s a t c th p :
  hold s = Some (th, p) -> wait s = None -> t <> th -> SI s -> (is_start c = true -> feature s = true) ->
  let '(m1, v) := lock_part (mof s a) t c [Blocked] in Good (set_wait s (Some (t, c))) m1 v.
Proof.
  intros Hh Hw Hne [Hs [Hc Ht]] Hf. cbn [lock_part m_pend mof].
  assert (Hp : pend_of s <> []) by (unfold pend_of; rewrite Hh; destruct p; discriminate).
  destruct (pend_of s) as [|x r] eqn:Ep; [congruence|]. cbn [shape].
  split; [reflexivity|]. split.
  - split; [apply (strinv_same s); auto|split; [|exact Ht]].
    unfold CtlInv in *. cbn [hold set_wait]. rewrite Hh in *.
    unfold waiter_ok in *. cbn [wait set_wait feature]. rewrite running_set_wait.
    destruct p; intuition.
  - exists a. rewrite <- Ep. unfold mof, with_pend, pend_of. cbn -[running]. rewrite Hw, running_set_wait.
    rewrite app_nil_r. reflexivity.
Qed.

Lemma active_assoc s t :
  (is_active s t = true -> exists x, assoc_N t (pend_of s) = Some x) /\
  (is_active s t = false -> assoc_N t (pend_of s) = None).
Proof.
  unfold is_active, pend_of.
  destruct (hold s) as [[th p]|]; destruct (wait s) as [[tw cw]|]; cbn;
    try destruct p; cbn;
    repeat match goal with |- context [N.eqb ?x ?y] => destruct (N.eqb x y) end; cbn;
    split; intros H; try discriminate; eauto.
Qed.

Lemma with_feat_mof s a : with_feat (mof s a) = mof (set_feature s) a.
Proof. reflexivity. Qed.
Lemma with_subs_mof s a b : with_subs (mof s a) b = mof (set_subs s b) a.
Proof. reflexivity. Qed.

Lemma si_set_subs s b : SI s -> SI (set_subs s b).
Proof. intros [Hs [Hc Ht]]. split; [apply (strinv_same s); auto|split; [exact Hc|exact Ht]]. Qed.

Lemma ctl_set_feature s : CtlInv s -> CtlInv (set_feature s).
Proof.
  unfold CtlInv, waiter_ok. cbn [hold wait set_feature feature].
  change (running (set_feature s)) with (running s).
  destruct (hold s) as [[t [c|c]]|]; destruct (wait s) as [[t2 c2]|]; intuition.
Qed.

Lemma si_set_feature s : SI s -> SI (set_feature s).
Proof.
  intros [Hs [Hc Ht]]. split; [apply (strinv_same s); auto|split; [apply ctl_set_feature; exact Hc|exact Ht]].
Qed.

(* the lock part of a call, whatever the state of stopMux (hold/wait already analysed by the caller) *)
Lemma lock_step_ok s a t c :
  SI s -> is_active s t = false -> (hold s = None \/ wait s = None) ->
  (is_start c = true -> feature s = true) ->
  let '(s1, o) := match hold s with
                  | Some _ => (set_wait s (Some (t, c)), [Blocked])
                  | None => run_locked s t c
                  end in
  (lock_head o \/ o = [Blocked]) /\ let '(m1, v) := lock_part (mof s a) t c o in Good s1 m1 v.
Proof.
  intros HSI Ha Hhw Hf. pose proof HSI as [Hs [Hc Ht]].
  destruct (hold s) as [[th p]|] eqn:Hh.
  - destruct Hhw as [|Hw]; [discriminate|].
    split; [right; reflexivity|].
    apply (blocked_ok s a t c th p); auto.
    intros ->. unfold is_active in Ha. rewrite Hh, N.eqb_refl in Ha. discriminate.
  - unfold CtlInv in Hc. rewrite Hh in Hc.
    pose proof (lockpart_ok s a t c Hh Hc Hs Ht Hf) as Hl.
    destruct (run_locked s t c) as [s1 o]. destruct Hl as [Hhd Hl]. split; [left; exact Hhd|exact Hl].
Qed.

Lemma call_ok s a t c : SI s ->
  let '(s1, o) := step_call s t c in
  let '(m1, v) := mon_call (mof s a) t c o in Good s1 m1 v.
Proof.
  intros HSI. pose proof HSI as [Hs [Hc Ht]]. unfold step_call, mon_call. cbn [m_pend mof].
  destruct (active_assoc s t) as [Hact1 Hact0].
  destruct (is_active s t) eqn:Ha.
  - destruct (Hact1 eq_refl) as [x ->]. cbn. split; [reflexivity|]. split; [exact HSI|exists a; reflexivity].
  - rewrite (Hact0 eq_refl).
    destruct (hold s) as [[th p]|] eqn:Hh; [destruct (wait s) as [[tw cw]|] eqn:Hw|].
    + (* holder and waiter: not modelled *)
      cbn [shape]. unfold pend_of. rewrite Hh, Hw. destruct p; cbn;
        (split; [reflexivity|]; split; [exact HSI|exists a; reflexivity]).
    + (* blocked *)
      destruct c; cbn [pre_lock].
      * pose proof (lock_step_ok s a t CIsRunning HSI Ha (or_intror Hw)) as Hl. rewrite Hh in Hl.
        cbn [app]. destruct Hl as [_ Hl]; [discriminate|]. exact Hl.
      * pose proof (lock_step_ok s a t CStop HSI Ha (or_intror Hw)) as Hl. rewrite Hh in Hl.
        cbn [app]. destruct Hl as [_ Hl]; [discriminate|]. exact Hl.
      * destruct (feature s) eqn:Hf.
        -- pose proof (lock_step_ok s a t CStart HSI Ha (or_intror Hw)) as Hl. rewrite Hh in Hl.
           cbn [app]. destruct Hl as [_ Hl]; [auto|]. exact Hl.
        -- cbn [m_feat mof]. rewrite Hf. cbn. split; [reflexivity|]. split; [exact HSI|exists a; reflexivity].
      * cbn [m_feat mof]. destruct (feature s) eqn:Hf.
        -- cbn. split; [reflexivity|]. split; [exact HSI|exists a; reflexivity].
        -- rewrite with_feat_mof.
           pose proof (mof_refresh (set_feature s) a None (or_introl eq_refl)) as Hj.
           pose proof (si_refresh _ (si_set_feature s HSI)) as HSI1.
           unfold do_refresh in *. cbv zeta in *. cbn [fst app] in *.
           rewrite Hj.
           match goal with |- context [set_wait ?x _] => set (s1 := x) in * end.
           pose proof (lock_step_ok s1 a t CAddFn HSI1 Ha (or_intror Hw)) as Hl.
           change (hold s1) with (hold s) in Hl. rewrite Hh in Hl.
           destruct Hl as [_ Hl]; [reflexivity|].
           destruct (lock_part (mof s1 a) t CAddFn [Blocked]) as [m2 v2]. cbn [app]. exact Hl.
      * pose proof (lock_step_ok s a t CRemoveEntity HSI Ha (or_intror Hw)) as Hl. rewrite Hh in Hl.
        cbn [app]. destruct Hl as [_ Hl]; [discriminate|]. exact Hl.
    + (* stopMux free *)
      destruct c; cbn [pre_lock].
      * pose proof (lock_step_ok s a t CIsRunning HSI Ha (or_introl Hh)) as Hl. rewrite Hh in Hl.
        destruct (run_locked s t CIsRunning) as [s2 o2]. cbn [app].
        destruct Hl as [[Hhd| ->] Hl]; [discriminate| |exact Hl].
        destruct o2 as [|x r]; [destruct Hhd|]. destruct x; try destruct Hhd; exact Hl.
      * pose proof (lock_step_ok s a t CStop HSI Ha (or_introl Hh)) as Hl. rewrite Hh in Hl.
        destruct (run_locked s t CStop) as [s2 o2]. cbn [app].
        destruct Hl as [[Hhd| ->] Hl]; [discriminate| |exact Hl].
        destruct o2 as [|x r]; [destruct Hhd|]. destruct x; try destruct Hhd; exact Hl.
      * destruct (feature s) eqn:Hf.
        -- pose proof (lock_step_ok s a t CStart HSI Ha (or_introl Hh)) as Hl. rewrite Hh in Hl.
           destruct (run_locked s t CStart) as [s2 o2]. cbn [app].
           destruct Hl as [[Hhd| ->] Hl]; [auto| |exact Hl].
           destruct o2 as [|x r]; [destruct Hhd|]. destruct x; try destruct Hhd; exact Hl.
        -- cbn [m_feat mof]. rewrite Hf. cbn. split; [reflexivity|]. split; [exact HSI|exists a; reflexivity].
      * cbn [m_feat mof]. destruct (feature s) eqn:Hf.
        -- cbn. split; [reflexivity|]. split; [exact HSI|exists a; reflexivity].
        -- rewrite with_feat_mof.
           pose proof (mof_refresh (set_feature s) a None (or_introl eq_refl)) as Hj.
           pose proof (si_refresh _ (si_set_feature s HSI)) as HSI1.
           unfold do_refresh in *. cbv zeta in *. cbn [fst app] in *.
           match goal with |- context [run_locked ?x _ _] => set (s1 := x) in * end.
           pose proof (lock_step_ok s1 a t CAddFn HSI1 Ha (or_introl Hh)) as Hl.
           change (hold s1) with (hold s) in Hl. rewrite Hh in Hl.
           destruct (run_locked s1 t CAddFn) as [s2 o2]. cbn [app].
           rewrite Hj.
           destruct Hl as [_ Hl]; [reflexivity|].
           destruct (lock_part (mof s1 a) t CAddFn o2) as [m2 v2]. cbn [app]. exact Hl.
      * pose proof (lock_step_ok s a t CRemoveEntity HSI Ha (or_introl Hh)) as Hl. rewrite Hh in Hl.
        destruct (run_locked s t CRemoveEntity) as [s2 o2]. cbn [app].
        destruct Hl as [[Hhd| ->] Hl]; [discriminate| |exact Hl].
        destruct o2 as [|x r]; [destruct Hhd|]. destruct x; try destruct Hhd; exact Hl.
Qed.

(* ------------------------------------------------------------------ rapid restarts *)

(* what a restart or a refresh leaves alone *)
Definition same_ctl (s s' : st) : Prop :=
  hold s' = hold s /\ wait s' = wait s /\ conf s' = conf s /\ tmo s' = tmo s /\ subs s' = subs s /\
  feature s' = feature s.

Lemma same_ctl_refl s : same_ctl s s.
Proof. repeat split. Qed.

Lemma same_ctl_trans a b c : same_ctl a b -> same_ctl b c -> same_ctl a c.
Proof. unfold same_ctl. intros [? [? [? [? [? ?]]]]] [? [? [? [? [? ?]]]]]. repeat split; congruence. Qed.

Lemma restart1_ok s : StrInv s -> feature s = true ->
  StrInv (restart1 s) /\ running (restart1 s) = true /\ same_ctl s (restart1 s) /\
  counter (restart1 s) = counter s /\ data (restart1 s) = data s.
Proof.
  intros Hs Hf. unfold restart1.
  assert (H : exists s', (match cur s with Some g => if running s then do_close s g else s | None => s end) = s' /\
              StrInv s' /\ running s' = false /\ same_ctl s s' /\ counter s' = counter s /\ data s' = data s).
  { destruct (cur s) as [g|] eqn:Eg.
    - destruct (running s) eqn:Hr.
      + exists (do_close s g). split; [reflexivity|]. split; [apply strinv_close; assumption|].
        split; [apply running_close; assumption|]. repeat split.
      + exists s. split; [reflexivity|]. split; [exact Hs|]. split; [exact Hr|].
        split; [apply same_ctl_refl|split; reflexivity].
    - exists s. split; [reflexivity|]. split; [exact Hs|].
      split; [unfold running; rewrite Eg; reflexivity|]. split; [apply same_ctl_refl|split; reflexivity]. }
  destruct H as [s' [-> [Hs' [Hr' [Hsame [Hc Hd]]]]]].
  assert (Hf' : feature s' = true) by (destruct Hsame as [_ [_ [_ [_ [_ E]]]]]; congruence).
  split; [apply strinv_make; assumption|]. split; [apply running_make; assumption|].
  split; [|split; [exact Hc|exact Hd]].
  apply (same_ctl_trans s s'); [exact Hsame|repeat split].
Qed.

Lemma restart_ok k : forall s, StrInv s -> feature s = true -> (0 < k)%nat ->
  StrInv (restart k s) /\ running (restart k s) = true /\ same_ctl s (restart k s) /\
  counter (restart k s) = counter s /\ data (restart k s) = data s.
Proof.
  induction k as [|k IH]; intros s Hs Hf Hk; [lia|].
  cbn [restart]. destruct (restart1_ok s Hs Hf) as [Hs1 [Hr1 [Hsame1 [Hc1 Hd1]]]].
  assert (Hf1 : feature (restart1 s) = true) by (destruct Hsame1 as [_ [_ [_ [_ [_ E]]]]]; congruence).
  destruct k as [|k'].
  - cbn [restart]. split; [exact Hs1|]. split; [exact Hr1|]. split; [exact Hsame1|]. split; assumption.
  - destruct (IH (restart1 s) Hs1 Hf1 ltac:(lia)) as [Hs2 [Hr2 [Hsame2 [Hc2 Hd2]]]].
    split; [exact Hs2|]. split; [exact Hr2|]. split; [exact (same_ctl_trans _ _ _ Hsame1 Hsame2)|].
    split; congruence.
Qed.

Lemma refresh_n_ok n : forall s, StrInv s ->
  StrInv (refresh_n n s) /\ running (refresh_n n s) = running s /\ cur (refresh_n n s) = cur s /\
  same_ctl s (refresh_n n s) /\ counter (refresh_n n s) = (counter s + N.of_nat n)%N /\
  ((0 < n)%nat -> data (refresh_n n s) = Some (counter (refresh_n n s))).
Proof.
  induction n as [|n IH]; intros s Hs.
  - cbn [refresh_n]. split; [exact Hs|]. split; [reflexivity|]. split; [reflexivity|].
    split; [apply same_ctl_refl|]. split; [rewrite N.add_0_r; reflexivity|lia].
  - cbn [refresh_n].
    assert (Hs1 : StrInv (fst (do_refresh s))) by (apply (strinv_same s); auto).
    destruct (IH (fst (do_refresh s)) Hs1) as [H1 [H2 [H3 [H4 [H5 H6]]]]].
    split; [exact H1|]. split; [exact H2|]. split; [exact H3|].
    split; [exact (same_ctl_trans s (fst (do_refresh s)) _ ltac:(repeat split) H4)|].
    split.
    + rewrite H5. cbn [do_refresh fst counter]. lia.
    + intros _. destruct n as [|n'].
      * reflexivity.
      * apply H6. lia.
Qed.


(* ------------------------------------------------------------------ every step, every history *)

Lemma si_set_conf s t : SI s -> 0 < t -> SI (set_conf s t).
Proof.
  intros [Hs [Hc Ht]] H. split; [apply (strinv_same s); auto|split; [exact Hc|exact H]].
Qed.

Lemma mof_set_conf s a t : with_conf (mof s a) t = mof (set_conf s t) a.
Proof. reflexivity. Qed.

Lemma step_ok0 s a o : SI s ->
  let '(s1, out) := step s o in
  let '(m1, v) := mon0 (mof s a) o out in Good s1 m1 v.
Proof.
  intros HSI. pose proof HSI as [Hs [Hc Ht]].
  assert (HSI0 : SI (set_conf s (tmo s))) by (apply si_set_conf; assumption).
  unfold mon0. cbn [m_tmo m_conf mof]. rewrite mof_set_conf.
  destruct o as [t|t c|t|g|g k|md k n|md k| | |]; cbn [step].
  - destruct (conf s || bad_tmo t) eqn:E.
    + cbn. split; [reflexivity|]. split; [exact HSI0|exists a; reflexivity].
    + cbn. apply orb_false_iff in E. destruct E as [_ E]. unfold bad_tmo in E.
      apply Z.ltb_ge in E.
      split; [reflexivity|]. split; [apply si_set_conf; [exact HSI|apply announced_pos; exact E]|exists a; reflexivity].
  - apply call_ok. exact HSI0.
  - apply resume_ok. exact HSI0.
  - apply tick_ok. exact HSI0.
  - destruct (Nat.leb 2 k && Nat.leb k max_run) eqn:E.
    + apply andb_true_iff in E. destruct E as [E _]. apply run_ok; assumption.
    + cbn. split; [reflexivity|]. split; [exact HSI0|exists a; reflexivity].
  - (* Burst *)
    set (s0 := set_conf s (tmo s)) in *. destruct HSI0 as [Hs0 [Hc0 Ht0]].
    unfold step_burst. destruct (burst_ok k n) eqn:Eb;
      [|cbn; split; [reflexivity|]; split; [split; [exact Hs0|split; [exact Hc0|exact Ht0]]|exists a; reflexivity]].
    cbn [m_pend mof]. unfold pend_of at 1. unfold CtlInv in Hc0.
    destruct (hold s0) as [[th p]|] eqn:Hh.
    + destruct p; cbn; (split; [reflexivity|]; split;
        [split; [exact Hs0|split; [unfold CtlInv; rewrite Hh; exact Hc0|exact Ht0]]|exists a; reflexivity]).
    + rewrite Hc0. cbn [app].
      destruct (feature s0) eqn:Hf.
      * unfold burst_ok in Eb. repeat (apply andb_true_iff in Eb; destruct Eb as [Eb ?]).
        assert (Hk : (0 < k)%nat) by (apply Nat.leb_le in Eb; lia).
        assert (Hn : (0 < n)%nat) by (match goal with H : Nat.leb 2 n = true |- _ => apply Nat.leb_le in H; lia end).
        destruct (restart_ok k s0 Hs0 Hf Hk) as [Hs1 [Hr1 [Hsame1 [Hc1 Hd1]]]].
        destruct (refresh_n_ok n (restart k s0) Hs1) as [Hs2 [Hr2 [Hcur2 [Hsame2 [Hc2 Hd2]]]]].
        pose proof (same_ctl_trans _ _ _ Hsame1 Hsame2) as [Eh [Ew [Ecf [Etm [Esu Efe]]]]].
        destruct (running_true _ Hr1) as [g [Eg _]]. rewrite Eg.
        cbn [m_last m_subs mof]. rewrite Hc2, Hc1.
        replace (N.leb (counter s0 + N.of_nat n) (counter s0 + N.of_nat n)) with true by (symmetry; apply N.leb_refl).
        unfold nnotify. cbn. rewrite N.eqb_refl.
        change (hold s) with (hold s0). change (wait s) with (wait s0). rewrite Hh, Hc0.
        split; [reflexivity|]. split.
        -- split; [exact Hs2|]. split; [|rewrite Etm; exact Ht0].
           unfold CtlInv. rewrite Eh, Hh, Ew. exact Hc0.
        -- exists true. unfold mof, pend_of. rewrite Eh, Hh, Ew, Hc0, Ecf, Etm, Esu, Efe, Hr2, Hr1, Hcur2, Eg.
           rewrite (Hd2 Hn), Hc2, Hc1. reflexivity.
      * cbn [m_feat mof]. rewrite Hf. cbn. split; [reflexivity|]. split;
          [split; [exact Hs0|split; [unfold CtlInv; rewrite Hh; exact Hc0|exact Ht0]]|exists a; reflexivity].
  - cbn. split; [reflexivity|]. split; [exact HSI0|exists a; reflexivity].
  - cbn. split; [reflexivity|]. split; [apply si_set_subs; exact HSI0|exists a; reflexivity].
  - cbn. split; [reflexivity|]. split; [apply si_set_subs; exact HSI0|exists a; reflexivity].
  - cbn. replace (eqb_oN (data s) (data s)) with true by (destruct (data s); cbn; [rewrite N.eqb_refl|]; reflexivity).
    split; [reflexivity|]. split; [exact HSI0|exists a; reflexivity].
Qed.

(* ------------------------------------------------------------------ explicit corollaries *)

Lemma step_si s o : SI s -> SI (fst (step s o)).
Proof.
  intros HSI. pose proof (step_ok0 s false o HSI) as H.
  destruct (step s o) as [s1 out]. destruct (mon0 (mof s false) o out) as [m1 v].
  destruct H as [_ [H _]]. exact H.
Qed.

(* a panic, or a call / stream that got stuck *)
Definition is_panic (o : obs) : bool := match o with Panic _ | Stuck => true | _ => false end.
Definition has_panic (l : list obs) : bool := existsb is_panic l.

Lemma has_panic_app a b : has_panic (a ++ b) = has_panic a || has_panic b.
Proof. unfold has_panic. apply existsb_app. Qed.

Lemma locked_no_panic s t c : has_panic (snd (run_locked s t c)) = false.
Proof. destruct c; cbn; destruct (running s); reflexivity. Qed.

Lemma release_no_panic s : has_panic (snd (release s)) = false.
Proof.
  unfold release. destruct (wait s) as [[t2 c2]|]; [|reflexivity].
  pose proof (locked_no_panic (set_wait s None) t2 c2) as H.
  destruct (run_locked (set_wait s None) t2 c2) as [s1 o]. cbn in *. exact H.
Qed.

Lemma finish_no_panic s c : has_panic (snd (finish s c)) = false.
Proof.
  unfold finish.
  match goal with |- context [release ?x] => pose proof (release_no_panic x) as H; destruct (release x) as [s2 o] end.
  cbn in *. exact H.
Qed.

Lemma resume_no_panic s t : SI s -> has_panic (snd (step_resume s t)) = false.
Proof.
  intros [Hs [Hc Ht]]. unfold step_resume.
  destruct (hold s) as [[th p]|] eqn:Hh; [|reflexivity].
  destruct (N.eqb t th); [|reflexivity].
  unfold CtlInv in Hc. rewrite Hh in Hc. destruct p as [c|c].
  - destruct Hc as [Hr _]. destruct (running_true s Hr) as [g [-> ->]].
    destruct c; try apply finish_no_panic; reflexivity.
  - pose proof (finish_no_panic (do_make s) c) as H.
    destruct (finish (do_make s) c) as [s1 o]. cbn in *. exact H.
Qed.

Lemma tick_no_panic s g : SI s -> has_panic (snd (step_tick s g)) = false.
Proof.
  intros [Hs _]. unfold step_tick.
  destruct (memN g (streams s)) eqn:Hin; [|reflexivity].
  destruct (memN g (closed s)); [reflexivity|].
  assert (Hf : feature s = true).
  { apply (si_feat _ Hs). apply memN_In in Hin. intros E. rewrite E in Hin. exact Hin. }
  rewrite Hf. reflexivity.
Qed.

Lemma run_ticks_no_panic k : forall s g, SI s -> has_panic (snd (run_ticks k s g)) = false.
Proof.
  induction k as [|k IH]; intros s g HSI; [reflexivity|].
  cbn [run_ticks]. pose proof (tick_no_panic s g HSI) as Ht.
  pose proof (tick_ok s false g HSI) as Hok.
  destruct (step_tick s g) as [s1 o]. cbn [snd] in Ht.
  destruct o as [|x [|y r]]; [exact Ht| |destruct x; exact Ht]. destruct x; try exact Ht.
  destruct (mon_tick (mof s false) g [Refreshed c n fresh tmo]) as [m1 v]. destruct Hok as [_ [HSI1 _]].
  specialize (IH s1 g HSI1). destruct (run_ticks k s1 g) as [s2 o2]. cbn [snd] in *.
  rewrite has_panic_app, IH. reflexivity.
Qed.

Lemma call_no_panic s t c : has_panic (snd (step_call s t c)) = false.
Proof.
  unfold step_call. destruct (is_active s t); [reflexivity|].
  assert (Hpre : has_panic (snd (fst (pre_lock s c))) = false).
  { destruct c; cbn; destruct (feature s); reflexivity. }
  destruct (pre_lock s c) as [[s1 o] go]. cbn [fst snd] in Hpre.
  destruct (hold s); [destruct (wait s); [reflexivity|]|]; destruct go; cbn [snd]; try exact Hpre.
  - rewrite has_panic_app, Hpre. reflexivity.
  - pose proof (locked_no_panic s1 t c) as Hl. destruct (run_locked s1 t c) as [s2 o2]. cbn [snd] in *.
    rewrite has_panic_app, Hpre, Hl. reflexivity.
Qed.

Lemma step_no_panic s o : SI s -> has_panic (snd (step s o)) = false.
Proof.
  intros HSI. assert (HSI0 : SI (set_conf s (tmo s))) by (apply si_set_conf; [exact HSI|apply HSI]).
  destruct o; cbn [step].
  - destruct (conf s || bad_tmo t); reflexivity.
  - apply call_no_panic.
  - apply resume_no_panic. exact HSI0.
  - apply tick_no_panic. exact HSI0.
  - destruct (Nat.leb 2 k && Nat.leb k max_run); [apply run_ticks_no_panic; exact HSI0|reflexivity].
  - unfold step_burst. destruct (burst_ok k n); [|reflexivity].
    destruct (hold (set_conf s (tmo s))); [reflexivity|]. destruct (feature (set_conf s (tmo s))); reflexivity.
  - reflexivity.
  - reflexivity.
  - reflexivity.
  - reflexivity.
Qed.

Lemma stuck_panic l : existsb is_stuck l = true -> has_panic l = true.
Proof.
  unfold has_panic. induction l as [|x r IH]; [discriminate|]. cbn. intros H.
  apply orb_true_iff in H. apply orb_true_iff. destruct H as [H|H]; [left; destruct x; try discriminate; reflexivity|right; auto].
Qed.

Lemma step_ok s a o : SI s ->
  let '(s1, out) := step s o in
  let '(m1, v) := mon (mof s a) o out in Good s1 m1 v.
Proof.
  intros HSI. pose proof (step_ok0 s a o HSI) as H0. pose proof (step_no_panic s o HSI) as Hp.
  unfold mon. destruct (step s o) as [s1 out]. cbn [snd] in Hp.
  destruct (existsb is_stuck out) eqn:E; [|exact H0].
  apply stuck_panic in E. congruence.
Qed.

Lemma si_init : SI init.
Proof.
  split; [|split].
  - split; cbn; intros; try discriminate; try contradiction.
  - reflexivity.
  - reflexivity.
Qed.

Lemma mof_init : minit = mof init false.
Proof. reflexivity. Qed.

Lemma run_strict_gen ops : forall s a, SI s ->
  strictly_accepted (judge (mof s a) sinit (snd (run s ops))) = true /\ SI (fst (run s ops)).
Proof.
  induction ops as [|o r IH]; intros s a HSI.
  - cbn. split; [reflexivity|exact HSI].
  - cbn [run]. pose proof (step_ok s a o HSI) as Hst.
    destruct (step s o) as [s1 out].
    destruct (run s1 r) as [s2 tr] eqn:Er. cbn [snd fst judge].
    destruct (mon (mof s a) o out) as [m1 v]. destruct Hst as [-> [HSI1 [a1 ->]]].
    specialize (IH s1 a1 HSI1). rewrite Er in IH. cbn [snd fst] in IH.
    cbn [strictly_accepted forallb fst]. exact IH.
Qed.

Theorem run_strict ops : strictly_accepted (judge minit sinit (snd (run init ops))) = true.
Proof. rewrite mof_init. apply run_strict_gen. exact si_init. Qed.

Lemma strict_accepted j : strictly_accepted j = true -> accepted j = true.
Proof.
  induction j as [|[v e] r IH]; [reflexivity|]. cbn. destruct v; [|discriminate]. intros H. cbn. exact (IH H).
Qed.

Theorem run_accepted ops : accepted (judge minit sinit (snd (run init ops))) = true.
Proof. apply strict_accepted, run_strict. Qed.

Theorem run_si ops : SI (fst (run init ops)).
Proof. apply (run_strict_gen ops init false si_init). Qed.

Lemma run_no_panic_gen ops : forall s, SI s ->
  forallb (fun x => negb (has_panic (snd x))) (snd (run s ops)) = true.
Proof.
  induction ops as [|o r IH]; intros s HSI; [reflexivity|].
  cbn [run]. pose proof (step_no_panic s o HSI) as Hp. pose proof (step_si s o HSI) as HSI1.
  destruct (step s o) as [s1 out]. cbn [fst snd] in *.
  specialize (IH s1 HSI1). destruct (run s1 r) as [s2 tr]. cbn [snd forallb] in *.
  rewrite Hp, IH. reflexivity.
Qed.

Theorem run_no_panic ops : forallb (fun x => negb (has_panic (snd x))) (snd (run init ops)) = true.
Proof. apply run_no_panic_gen, si_init. Qed.

(* at most one stream can still refresh, and it is the one StopHeartbeat would close *)
Theorem one_live_stream ops :
  let s := fst (run init ops) in
  forall g1 g2, In g1 (streams s) -> In g2 (streams s) ->
    memN g1 (closed s) = false -> memN g2 (closed s) = false -> g1 = g2 /\ cur s = Some g1.
Proof.
  intros s g1 g2 H1 H2 C1 C2. pose proof (run_si ops) as [Hs _]. fold s in Hs.
  pose proof (si_live _ Hs g1 H1 C1) as E1. pose proof (si_live _ Hs g2 H2 C2) as E2.
  split; [congruence|exact E1].
Qed.

(* once nothing is running, no stream refreshes: a tick of any stream exits or is not realisable *)
Lemma tick_when_stopped s g : SI s -> running s = false ->
  snd (step_tick s g) = [Exited] \/ snd (step_tick s g) = [NotRunnable].
Proof.
  intros [Hs _] Hr. unfold step_tick.
  destruct (memN g (streams s)) eqn:Hin; [|right; reflexivity].
  destruct (memN g (closed s)) eqn:Hc; [left; reflexivity|].
  apply memN_In in Hin. pose proof (si_live _ Hs g Hin Hc) as E.
  pose proof (running_false_cur s g Hr E). congruence.
Qed.

(* a StopHeartbeat (or RemoveEntity) that ran to completion (Call, then Resume past the hook) leaves no
   running heartbeat and does not touch counter or data, whatever happened before *)
Lemma stop_completes s t c : SI s -> hold s = None -> (c = CStop \/ c = CRemoveEntity) ->
  let s1 := fst (step_call s t c) in
  let s2 := fst (step_resume s1 t) in
  running s2 = false /\ hold s2 = None /\ counter s2 = counter s /\ data s2 = data s.
Proof.
  intros [Hs [Hc Ht]] Hh Hcall.
  unfold CtlInv in Hc. rewrite Hh in Hc.
  assert (Ha : is_active s t = false).
  { unfold is_active. rewrite Hh, Hc. reflexivity. }
  unfold step_call. rewrite Ha, Hh.
  destruct Hcall as [-> | ->]; cbn [pre_lock run_locked]; destruct (running s) eqn:Hr; cbn [app fst snd].
  - unfold step_resume. cbn [hold set_hold]. rewrite N.eqb_refl.
    destruct (running_true s Hr) as [g [Eg Hg]]. cbn [cur closed set_hold]. rewrite Eg, Hg.
    unfold finish, release. cbn [wait set_hold do_close]. rewrite Hc. cbn -[memN running].
    repeat split; auto. apply (running_close s g Eg).
  - unfold step_resume. rewrite Hh. cbn. repeat split; auto.
  - unfold step_resume. cbn [hold set_hold]. rewrite N.eqb_refl.
    destruct (running_true s Hr) as [g [Eg Hg]]. cbn [cur closed set_hold]. rewrite Eg, Hg.
    unfold finish, release. cbn [wait set_hold do_close set_removed]. rewrite Hc. cbn -[memN running].
    repeat split; auto. apply (running_close s g Eg).
  - unfold step_resume. cbn [hold set_removed]. rewrite Hh. cbn. repeat split; auto.
Qed.
