(* C17 — proofs about the abstract lock machine Model/LockOrder.v.
   1. lock-order discipline  =>  no reachable circular wait (+ a thread that can move)
   2. lockset discipline     =>  conflicting accesses are ordered by happens-before
   3. the two disciplines follow from boolean checks on static tables. *)
From Verif Require Import Base.Prelude Model.LockOrder.
From Coq Require Import String.

Local Open Scope nat_scope.

(* ------------------------------------------------------------------ *)
(* basics                                                              *)

Lemma lock_eqb_eq a b : lock_eqb a b = true <-> a = b.
Proof.
  unfold lock_eqb. destruct a as [a1 a2], b as [b1 b2]. cbn [fst snd].
  rewrite andb_true_iff, !N.eqb_eq. split.
  - intros [-> ->]. reflexivity.
  - intros H. injection H as -> ->. split; reflexivity.
Qed.

Lemma lock_eqb_refl a : lock_eqb a a = true.
Proof. apply lock_eqb_eq. reflexivity. Qed.

Lemma mode_eqb_eq a b : mode_eqb a b = true <-> a = b.
Proof. destruct a, b; cbn; split; intros H; try reflexivity; discriminate. Qed.

Lemma conflictb_spec a b : conflictb a b = true <-> conflict a b.
Proof.
  unfold conflict. destruct a, b; cbn; split; intros H; auto; try discriminate.
  destruct H as [H | H]; discriminate.
Qed.

Lemma firstn_snoc {A} (l : list A) n e :
  nth_error l n = Some e -> firstn (S n) l = firstn n l ++ [e].
Proof.
  revert n. induction l as [| a l IH]; intros [| n] H; cbn in *; try discriminate.
  - injection H as ->. reflexivity.
  - f_equal. apply IH. exact H.
Qed.

Lemma st_at_0 tr : st_at tr 0 = init.
Proof. reflexivity. Qed.

Lemma st_at_S tr n e : nth_error tr n = Some e -> st_at tr (S n) = apply (st_at tr n) e.
Proof.
  intros H. unfold st_at, run. rewrite (firstn_snoc _ _ _ H), fold_left_app. reflexivity.
Qed.

Lemma st_at_past tr n : nth_error tr n = None -> st_at tr (S n) = st_at tr n.
Proof.
  intros H. apply nth_error_None in H. unfold st_at.
  rewrite !firstn_all2 by lia. reflexivity.
Qed.

(* induction along a trace *)
Lemma st_at_ind tr (P : state -> Prop) :
  P init ->
  (forall n e, nth_error tr n = Some e -> P (st_at tr n) -> P (apply (st_at tr n) e)) ->
  forall n, P (st_at tr n).
Proof.
  intros H0 Hs n. induction n as [| n IH].
  - exact H0.
  - destruct (nth_error tr n) as [e |] eqn:E.
    + rewrite (st_at_S _ _ _ E). apply Hs; assumption.
    + rewrite (st_at_past _ _ E). exact IH.
Qed.

(* effect of one step on the held set *)
Lemma holds_apply st t a t2 l2 m2 :
  holds (apply st (t, a)) t2 l2 m2 <->
  match a with
  | Acq l m => (l2, t2, m2) = (l, t, m) \/ holds st t2 l2 m2
  | Rel l m => holds st t2 l2 m2 /\ (l2, t2, m2) <> (l, t, m)
  | _ => holds st t2 l2 m2
  end.
Proof.
  unfold holds. destruct a; cbn [apply held]; try tauto.
  - cbn. split; intros [H | H]; auto.
  - rewrite filter_In. cbn [fst snd]. rewrite negb_true_iff. split.
    + intros [Hin Hb]. split; [exact Hin |]. intros Heq. injection Heq as -> -> ->.
      rewrite lock_eqb_refl, N.eqb_refl in Hb. cbn in Hb.
      destruct m; cbn in Hb; discriminate.
    + intros [Hin Hne]. split; [exact Hin |].
      destruct (lock_eqb l2 l) eqn:E1; [| reflexivity].
      destruct (N.eqb t2 t) eqn:E2; [| reflexivity].
      destruct (mode_eqb m2 m) eqn:E3; [| reflexivity].
      exfalso. apply Hne. apply lock_eqb_eq in E1. apply N.eqb_eq in E2. apply mode_eqb_eq in E3.
      subst. reflexivity.
Qed.

Lemma waiting_apply st t a t2 l2 m2 :
  In (t2, l2, m2) (waiting (apply st (t, a))) <->
  match a with
  | Req l m => (t2, l2, m2) = (t, l, m) \/ In (t2, l2, m2) (waiting st)
  | Acq l m => In (t2, l2, m2) (waiting st) /\ t2 <> t
  | _ => In (t2, l2, m2) (waiting st)
  end.
Proof.
  destruct a; cbn [apply waiting]; try tauto.
  - cbn. split; intros [H | H]; auto.
  - rewrite filter_In. cbn [fst snd]. rewrite negb_true_iff, N.eqb_neq. tauto.
Qed.

(* ------------------------------------------------------------------ *)
(* invariants of valid traces                                          *)

Definition waiting_functional (st : state) : Prop :=
  forall t l m l' m', In (t, l, m) (waiting st) -> In (t, l', m') (waiting st) -> l = l' /\ m = m'.

Definition exclusive (st : state) : Prop :=
  (forall t t' l m m', holds st t l m -> holds st t' l m' -> conflict m m' -> t = t')
  /\ (forall t l m m', holds st t l m -> holds st t l m' -> m = m').

Lemma valid_waiting_functional tr : valid tr -> forall n, waiting_functional (st_at tr n).
Proof.
  intros Hv. apply st_at_ind.
  - intros t l m l' m' H. destruct H.
  - intros n [t a] He IH. specialize (Hv _ _ He). unfold waiting_functional in *.
    intros t2 l m l' m' H1 H2. rewrite waiting_apply in H1, H2.
    destruct a; try (eapply IH; eassumption).
    + cbn in Hv. destruct H1 as [H1 | H1], H2 as [H2 | H2].
      * injection H1 as -> -> ->. injection H2 as -> ->. split; reflexivity.
      * injection H1 as -> -> ->. exfalso. apply Hv. exists l', m'. exact H2.
      * injection H2 as -> -> ->. exfalso. apply Hv. exists l, m. exact H1.
      * eapply IH; eassumption.
    + destruct H1 as [H1 _], H2 as [H2 _]. eapply IH; eassumption.
Qed.

Lemma valid_exclusive tr : valid tr -> forall n, exclusive (st_at tr n).
Proof.
  intros Hv. apply st_at_ind.
  - split; intros; match goal with H : holds init _ _ _ |- _ => destruct H end.
  - intros n [t a] He [IH1 IH2]. specialize (Hv _ _ He). split.
    + intros t1 t2 l1 m1 m2 H1 H2 Hc. rewrite holds_apply in H1, H2.
      destruct a; try (eapply IH1; eassumption).
      * cbn in Hv. destruct Hv as (_ & Hfree & Hnot).
        destruct H1 as [H1 | H1], H2 as [H2 | H2].
        -- injection H1 as -> -> ->. injection H2 as -> ->. reflexivity.
        -- injection H1 as -> -> ->. exfalso. exact (Hfree _ _ H2 Hc).
        -- injection H2 as -> -> ->. exfalso. apply (Hfree _ _ H1).
           destruct Hc as [Hc | Hc]; [right | left]; exact Hc.
        -- eapply IH1; eassumption.
      * destruct H1 as [H1 _], H2 as [H2 _]. eapply IH1; eassumption.
    + intros t1 l1 m1 m2 H1 H2. rewrite holds_apply in H1, H2.
      destruct a; try (eapply IH2; eassumption).
      * cbn in Hv. destruct Hv as (_ & _ & Hnot).
        destruct H1 as [H1 | H1], H2 as [H2 | H2].
        -- injection H1 as -> -> ->. injection H2 as ->. reflexivity.
        -- injection H1 as -> -> ->. exfalso. apply Hnot. exists m2. exact H2.
        -- injection H2 as -> -> ->. exfalso. apply Hnot. exists m1. exact H1.
        -- eapply IH2; eassumption.
      * destruct H1 as [H1 _], H2 as [H2 _]. eapply IH2; eassumption.
Qed.

(* ------------------------------------------------------------------ *)
(* 1. lock order  =>  no circular wait                                 *)

Lemma blocked_by_spec st t t' :
  blocked_by st t t' <->
  exists l m, In (t, l, m) (waiting st) /\
    ((exists m', holds st t' l m' /\ conflict m m') \/ (m = MR /\ In (t', l, MW) (waiting st))).
Proof.
  unfold blocked_by, blockers. rewrite in_flat_map. split.
  - intros [[[t0 l] m] [Hin H]]. destruct (N.eqb t0 t) eqn:E; [| destruct H].
    apply N.eqb_eq in E. subst t0. exists l, m. split; [exact Hin |].
    apply in_app_or in H. destruct H as [H | H].
    + left. apply in_map_iff in H. destruct H as [[[l2 t2] m2] [Heq Hf]]. cbn in Heq. subst t2.
      apply filter_In in Hf. destruct Hf as [Hh Hb]. cbn [fst snd] in Hb.
      apply andb_true_iff in Hb. destruct Hb as [Hl Hc]. apply lock_eqb_eq in Hl. subst l2.
      exists m2. split; [exact Hh | apply conflictb_spec; exact Hc].
    + right. destruct m; [| destruct H]. split; [reflexivity |].
      apply in_map_iff in H. destruct H as [[[t2 l2] m2] [Heq Hf]]. cbn in Heq. subst t2.
      apply filter_In in Hf. destruct Hf as [Hw Hb]. cbn [fst snd] in Hb.
      apply andb_true_iff in Hb. destruct Hb as [Hl Hm]. apply lock_eqb_eq in Hl.
      apply mode_eqb_eq in Hm. subst. exact Hw.
  - intros (l & m & Hin & H). exists (t, l, m). split; [exact Hin |].
    rewrite N.eqb_refl. apply in_or_app. destruct H as [(m' & Hh & Hc) | [-> Hw]].
    + left. apply in_map_iff. exists (l, t', m'). split; [reflexivity |].
      apply filter_In. split; [exact Hh |]. cbn [fst snd].
      rewrite lock_eqb_refl. cbn. apply conflictb_spec. exact Hc.
    + right. apply in_map_iff. exists (t', l, MW). split; [reflexivity |].
      apply filter_In. split; [exact Hw |]. cbn [fst snd]. rewrite lock_eqb_refl. reflexivity.
Qed.

Section Order.
  Variable rank : cls -> nat.

  (* a waiting thread holds only locks ranked below the one it waits for *)
  Definition below_wanted (st : state) : Prop :=
    forall t l m, In (t, l, m) (waiting st) ->
      forall l' m', holds st t l' m' -> rank (snd l') < rank (snd l).

  Lemma disciplined_below_wanted tr :
    valid tr -> disciplined rank tr -> forall n, below_wanted (st_at tr n).
  Proof.
    intros Hv Hd. apply st_at_ind.
    - intros t l m H. destruct H.
    - intros n [t a] He IH. specialize (Hv _ _ He). unfold below_wanted in *.
      intros t2 l m Hw l' m' Hh. rewrite waiting_apply in Hw. rewrite holds_apply in Hh.
      destruct a; try (eapply IH; eassumption).
      + destruct Hw as [Hw | Hw].
        * injection Hw as -> -> ->. eapply Hd; eassumption.
        * eapply IH; eassumption.
      + destruct Hw as [Hw Hne]. destruct Hh as [Hh | Hh].
        * injection Hh as -> -> ->. congruence.
        * eapply IH; eassumption.
      + destruct Hh as [Hh _]. eapply IH; eassumption.
  Qed.

  Definition key (l : lock) (m : mode) : nat :=
    2 * rank (snd l) + match m with MW => 1 | MR => 0 end.

  Lemma hop_increases st t t' l m l' m' :
    waiting_functional st -> below_wanted st ->
    blocked_by st t t' -> In (t, l, m) (waiting st) -> In (t', l', m') (waiting st) ->
    key l m < key l' m'.
  Proof.
    intros Hf Hb Hbl Hw Hw'. apply blocked_by_spec in Hbl.
    destruct Hbl as (l0 & m0 & Hw0 & H).
    destruct (Hf _ _ _ _ _ Hw Hw0) as [<- <-].
    destruct H as [(mh & Hh & _) | [-> Hww]].
    - specialize (Hb _ _ _ Hw' _ _ Hh). unfold key. destruct m, m'; lia.
    - destruct (Hf _ _ _ _ _ Hw' Hww) as [-> ->]. unfold key. lia.
  Qed.

  Lemma blocked_source_waits st t t' : blocked_by st t t' -> exists l m, In (t, l, m) (waiting st).
  Proof.
    intros H. apply blocked_by_spec in H. destruct H as (l & m & Hw & _). exists l, m. exact Hw.
  Qed.

  Lemma path_increases st t t' :
    waiting_functional st -> below_wanted st -> wait_path st t t' ->
    forall l m l' m', In (t, l, m) (waiting st) -> In (t', l', m') (waiting st) -> key l m < key l' m'.
  Proof.
    intros Hf Hb Hp. induction Hp as [t t' H | t t1 t' H Hp IH]; intros l m l' m' Hw Hw'.
    - eapply hop_increases; eassumption.
    - assert (exists l1 m1, In (t1, l1, m1) (waiting st)) as (l1 & m1 & Hw1).
      { destruct Hp as [? ? Hx | ? ? ? Hx _]; eapply blocked_source_waits; exact Hx. }
      pose proof (hop_increases _ _ _ _ _ _ _ Hf Hb H Hw Hw1).
      pose proof (IH _ _ _ _ Hw1 Hw'). lia.
  Qed.

  Theorem no_circular_wait tr :
    valid tr -> disciplined rank tr -> forall n, ~ circular_wait (st_at tr n).
  Proof.
    intros Hv Hd n [t Hp].
    pose proof (valid_waiting_functional _ Hv n) as Hf.
    pose proof (disciplined_below_wanted _ Hv Hd n) as Hb.
    assert (exists l m, In (t, l, m) (waiting (st_at tr n))) as (l & m & Hw).
    { destruct Hp as [? ? Hx | ? ? ? Hx _]; eapply blocked_source_waits; exact Hx. }
    pose proof (path_increases _ _ _ Hf Hb Hp _ _ _ _ Hw Hw). lia.
  Qed.

  (* progress: from every waiting thread the waits-for chain ends in a thread that is
     blocked by nobody - it is running, or its lock can be granted *)
  Theorem some_thread_can_move tr (B : nat) :
    (forall c, rank c <= B) ->
    valid tr -> disciplined rank tr -> forall n t, is_waiting (st_at tr n) t ->
    exists t', wait_path0 (st_at tr n) t t' /\ blockers (st_at tr n) t' = [].
  Proof.
    intros HB Hv Hd n.
    pose proof (valid_waiting_functional _ Hv n) as Hf.
    pose proof (disciplined_below_wanted _ Hv Hd n) as Hb.
    set (st := st_at tr n) in *.
    assert (forall k t l m, In (t, l, m) (waiting st) -> 2 * B + 2 - key l m <= k ->
              exists t', wait_path0 st t t' /\ blockers st t' = []) as H.
    { induction k as [| k IH]; intros t l m Hw Hk.
      - exfalso. unfold key in Hk. specialize (HB (snd l)). destruct m; lia.
      - destruct (blockers st t) as [| t1 rest] eqn:E.
        + exists t. split; [constructor | exact E].
        + assert (blocked_by st t t1) as Hbl by (unfold blocked_by; rewrite E; left; reflexivity).
          destruct (blockers st t1) as [| t2 rest1] eqn:E1.
          * exists t1. split; [| exact E1]. econstructor; [exact Hbl | constructor].
          * assert (blocked_by st t1 t2) as Hbl1 by (unfold blocked_by; rewrite E1; left; reflexivity).
            destruct (blocked_source_waits _ _ _ Hbl1) as (l1 & m1 & Hw1).
            pose proof (hop_increases _ _ _ _ _ _ _ Hf Hb Hbl Hw Hw1) as Hlt.
            destruct (IH t1 l1 m1 Hw1 ltac:(lia)) as (t' & Hp & Hnb).
            exists t'. split; [| exact Hnb]. econstructor; eassumption. }
    intros t (l & m & Hw). eapply H; [exact Hw | reflexivity].
  Qed.
End Order.

(* the discipline from a table of edges and a rank certificate *)
Lemma edges_ok_disciplined table edges tr :
  edges_ok table edges = true -> covered_by edges tr -> disciplined (rank_of table) tr.
Proof.
  intros Hok Hc n t l m He l' m' Hh. unfold edges_ok in Hok. rewrite forallb_forall in Hok.
  specialize (Hok _ (Hc _ _ _ _ He _ _ Hh)). cbn [fst snd] in Hok. apply Nat.ltb_lt in Hok. exact Hok.
Qed.

Lemma rank_of_bound table c : rank_of table c <= rank_bound table.
Proof.
  unfold rank_of, rank_bound. induction table as [| [k v] r IH]; cbn [assoc_N fold_right snd].
  - lia.
  - destruct (N.eqb c k); [lia |]. etransitivity; [exact IH | lia].
Qed.
