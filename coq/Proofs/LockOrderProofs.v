(* C17 — proofs about the abstract lock machine Model/LockOrder.v.
   1. lock-order discipline  =>  no reachable circular wait (+ a thread that can move)
   2. lockset discipline     =>  conflicting accesses are ordered by happens-before
   3. the two disciplines follow from boolean checks on static tables. *)
From Verif Require Import Base.Prelude Model.LockOrder.
From Coq Require Import String.

Local Open Scope nat_scope.

(* ------------------------------------------------------------------ *)
(* basics                                                              *)

Lemma lock_eqb_eq a b : lock_eqb a b = true <-> a = b.
Proof.
  unfold lock_eqb. destruct a as [a1 a2], b as [b1 b2]. cbn [fst snd].
  rewrite andb_true_iff, !N.eqb_eq. split.
  - intros [-> ->]. reflexivity.
  - intros H. injection H as -> ->. split; reflexivity.
Qed.

Lemma lock_eqb_refl a : lock_eqb a a = true.
Proof. apply lock_eqb_eq. reflexivity. Qed.

Lemma mode_eqb_eq a b : mode_eqb a b = true <-> a = b.
Proof. destruct a, b; cbn; split; intros H; try reflexivity; discriminate. Qed.

Lemma conflictb_spec a b : conflictb a b = true <-> conflict a b.
Proof.
  unfold conflict. destruct a, b; cbn; split; intros H; auto; try discriminate.
  destruct H as [H | H]; discriminate.
Qed.

Lemma firstn_snoc {A} (l : list A) n e :
  nth_error l n = Some e -> firstn (S n) l = firstn n l ++ [e].
Proof.
  revert n. induction l as [| a l IH]; intros [| n] H; cbn in *; try discriminate.
  - injection H as ->. reflexivity.
  - f_equal. apply IH. exact H.
Qed.

Lemma st_at_0 tr : st_at tr 0 = init.
Proof. reflexivity. Qed.

Lemma st_at_S tr n e : nth_error tr n = Some e -> st_at tr (S n) = apply (st_at tr n) e.
Proof.
  intros H. unfold st_at, run. rewrite (firstn_snoc _ _ _ H), fold_left_app. reflexivity.
Qed.

Lemma st_at_past tr n : nth_error tr n = None -> st_at tr (S n) = st_at tr n.
Proof.
  intros H. apply nth_error_None in H. unfold st_at.
  rewrite !firstn_all2 by lia. reflexivity.
Qed.

(* induction along a trace *)
Lemma st_at_ind tr (P : state -> Prop) :
  P init ->
  (forall n e, nth_error tr n = Some e -> P (st_at tr n) -> P (apply (st_at tr n) e)) ->
  forall n, P (st_at tr n).
Proof.
  intros H0 Hs n. induction n as [| n IH].
  - exact H0.
  - destruct (nth_error tr n) as [e |] eqn:E.
    + rewrite (st_at_S _ _ _ E). apply Hs; assumption.
    + rewrite (st_at_past _ _ E). exact IH.
Qed.

(* effect of one step on the held set *)
Lemma holds_apply st t a t2 l2 m2 :
  holds (apply st (t, a)) t2 l2 m2 <->
  match a with
  | Acq l m => (l2, t2, m2) = (l, t, m) \/ holds st t2 l2 m2
  | Rel l m => holds st t2 l2 m2 /\ (l2, t2, m2) <> (l, t, m)
  | _ => holds st t2 l2 m2
  end.
Proof.
  unfold holds. destruct a; cbn [apply held]; try tauto.
  - cbn. split; intros [H | H]; auto.
  - rewrite filter_In. cbn [fst snd]. rewrite negb_true_iff. split.
    + intros [Hin Hb]. split; [exact Hin |]. intros Heq. injection Heq as -> -> ->.
      rewrite lock_eqb_refl, N.eqb_refl in Hb. cbn in Hb.
      destruct m; cbn in Hb; discriminate.
    + intros [Hin Hne]. split; [exact Hin |].
      destruct (lock_eqb l2 l) eqn:E1; [| reflexivity].
      destruct (N.eqb t2 t) eqn:E2; [| reflexivity].
      destruct (mode_eqb m2 m) eqn:E3; [| reflexivity].
      exfalso. apply Hne. apply lock_eqb_eq in E1. apply N.eqb_eq in E2. apply mode_eqb_eq in E3.
      subst. reflexivity.
Qed.

Lemma waiting_apply st t a t2 l2 m2 :
  In (t2, l2, m2) (waiting (apply st (t, a))) <->
  match a with
  | Req l m => (t2, l2, m2) = (t, l, m) \/ In (t2, l2, m2) (waiting st)
  | Acq l m => In (t2, l2, m2) (waiting st) /\ t2 <> t
  | _ => In (t2, l2, m2) (waiting st)
  end.
Proof.
  destruct a; cbn [apply waiting]; try tauto.
  - cbn. split; intros [H | H]; auto.
  - rewrite filter_In. cbn [fst snd]. rewrite negb_true_iff, N.eqb_neq. tauto.
Qed.

(* ------------------------------------------------------------------ *)
(* invariants of valid traces                                          *)

Definition waiting_functional (st : state) : Prop :=
  forall t l m l' m', In (t, l, m) (waiting st) -> In (t, l', m') (waiting st) -> l = l' /\ m = m'.

Definition exclusive (st : state) : Prop :=
  (forall t t' l m m', holds st t l m -> holds st t' l m' -> conflict m m' -> t = t')
  /\ (forall t l m m', holds st t l m -> holds st t l m' -> m = m').

Lemma valid_waiting_functional tr : valid tr -> forall n, waiting_functional (st_at tr n).
Proof.
  intros Hv. apply st_at_ind.
  - intros t l m l' m' H. destruct H.
  - intros n [t a] He IH. specialize (Hv _ _ He). unfold waiting_functional in *.
    intros t2 l m l' m' H1 H2. rewrite waiting_apply in H1, H2.
    destruct a; try (eapply IH; eassumption).
    + cbn in Hv. destruct H1 as [H1 | H1], H2 as [H2 | H2].
      * injection H1 as -> -> ->. injection H2 as -> ->. split; reflexivity.
      * injection H1 as -> -> ->. exfalso. apply Hv. exists l', m'. exact H2.
      * injection H2 as -> -> ->. exfalso. apply Hv. exists l, m. exact H1.
      * eapply IH; eassumption.
    + destruct H1 as [H1 _], H2 as [H2 _]. eapply IH; eassumption.
Qed.

Lemma valid_exclusive tr : valid tr -> forall n, exclusive (st_at tr n).
Proof.
  intros Hv. apply st_at_ind.
  - split; intros; match goal with H : holds init _ _ _ |- _ => destruct H end.
  - intros n [t a] He [IH1 IH2]. specialize (Hv _ _ He). split.
    + intros t1 t2 l1 m1 m2 H1 H2 Hc. rewrite holds_apply in H1, H2.
      destruct a; try (eapply IH1; eassumption).
      * cbn in Hv. destruct Hv as (_ & Hfree & Hnot).
        destruct H1 as [H1 | H1], H2 as [H2 | H2].
        -- injection H1 as -> -> ->. injection H2 as -> ->. reflexivity.
        -- injection H1 as -> -> ->. exfalso. exact (Hfree _ _ H2 Hc).
        -- injection H2 as -> -> ->. exfalso. apply (Hfree _ _ H1).
           destruct Hc as [Hc | Hc]; [right | left]; exact Hc.
        -- eapply IH1; eassumption.
      * destruct H1 as [H1 _], H2 as [H2 _]. eapply IH1; eassumption.
    + intros t1 l1 m1 m2 H1 H2. rewrite holds_apply in H1, H2.
      destruct a; try (eapply IH2; eassumption).
      * cbn in Hv. destruct Hv as (_ & _ & Hnot).
        destruct H1 as [H1 | H1], H2 as [H2 | H2].
        -- injection H1 as -> -> ->. injection H2 as ->. reflexivity.
        -- injection H1 as -> -> ->. exfalso. apply Hnot. exists m2. exact H2.
        -- injection H2 as -> -> ->. exfalso. apply Hnot. exists m1. exact H1.
        -- eapply IH2; eassumption.
      * destruct H1 as [H1 _], H2 as [H2 _]. eapply IH2; eassumption.
Qed.

(* ------------------------------------------------------------------ *)
(* 1. lock order  =>  no circular wait                                 *)

Lemma blocked_by_spec st t t' :
  blocked_by st t t' <->
  exists l m, In (t, l, m) (waiting st) /\
    ((exists m', holds st t' l m' /\ conflict m m') \/ (m = MR /\ In (t', l, MW) (waiting st))).
Proof.
  unfold blocked_by, blockers. rewrite in_flat_map. split.
  - intros [[[t0 l] m] [Hin H]]. destruct (N.eqb t0 t) eqn:E; [| destruct H].
    apply N.eqb_eq in E. subst t0. exists l, m. split; [exact Hin |].
    apply in_app_or in H. destruct H as [H | H].
    + left. apply in_map_iff in H. destruct H as [[[l2 t2] m2] [Heq Hf]]. cbn in Heq. subst t2.
      apply filter_In in Hf. destruct Hf as [Hh Hb]. cbn [fst snd] in Hb.
      apply andb_true_iff in Hb. destruct Hb as [Hl Hc]. apply lock_eqb_eq in Hl. subst l2.
      exists m2. split; [exact Hh | apply conflictb_spec; exact Hc].
    + right. destruct m; [| destruct H]. split; [reflexivity |].
      apply in_map_iff in H. destruct H as [[[t2 l2] m2] [Heq Hf]]. cbn in Heq. subst t2.
      apply filter_In in Hf. destruct Hf as [Hw Hb]. cbn [fst snd] in Hb.
      apply andb_true_iff in Hb. destruct Hb as [Hl Hm]. apply lock_eqb_eq in Hl.
      apply mode_eqb_eq in Hm. subst. exact Hw.
  - intros (l & m & Hin & H). exists (t, l, m). split; [exact Hin |].
    rewrite N.eqb_refl. apply in_or_app. destruct H as [(m' & Hh & Hc) | [-> Hw]].
    + left. apply in_map_iff. exists (l, t', m'). split; [reflexivity |].
      apply filter_In. split; [exact Hh |]. cbn [fst snd].
      rewrite lock_eqb_refl. cbn. apply conflictb_spec. exact Hc.
    + right. apply in_map_iff. exists (t', l, MW). split; [reflexivity |].
      apply filter_In. split; [exact Hw |]. cbn [fst snd]. rewrite lock_eqb_refl. reflexivity.
Qed.

Section Order.
  Variable rank : cls -> nat.

  (* a waiting thread holds only locks ranked below the one it waits for *)
  Definition below_wanted (st : state) : Prop :=
    forall t l m, In (t, l, m) (waiting st) ->
      forall l' m', holds st t l' m' -> rank (snd l') < rank (snd l).

  Lemma disciplined_below_wanted tr :
    valid tr -> disciplined rank tr -> forall n, below_wanted (st_at tr n).
  Proof.
    intros Hv Hd. apply st_at_ind.
    - intros t l m H. destruct H.
    - intros n [t a] He IH. specialize (Hv _ _ He). unfold below_wanted in *.
      intros t2 l m Hw l' m' Hh. rewrite waiting_apply in Hw. rewrite holds_apply in Hh.
      destruct a; try (eapply IH; eassumption).
      + destruct Hw as [Hw | Hw].
        * injection Hw as -> -> ->. eapply Hd; eassumption.
        * eapply IH; eassumption.
      + destruct Hw as [Hw Hne]. destruct Hh as [Hh | Hh].
        * injection Hh as -> -> ->. congruence.
        * eapply IH; eassumption.
      + destruct Hh as [Hh _]. eapply IH; eassumption.
  Qed.

  Definition key (l : lock) (m : mode) : nat :=
    2 * rank (snd l) + match m with MW => 1 | MR => 0 end.

  Lemma hop_increases st t t' l m l' m' :
    waiting_functional st -> below_wanted st ->
    blocked_by st t t' -> In (t, l, m) (waiting st) -> In (t', l', m') (waiting st) ->
    key l m < key l' m'.
  Proof.
    intros Hf Hb Hbl Hw Hw'. apply blocked_by_spec in Hbl.
    destruct Hbl as (l0 & m0 & Hw0 & H).
    destruct (Hf _ _ _ _ _ Hw Hw0) as [<- <-].
    destruct H as [(mh & Hh & _) | [-> Hww]].
    - specialize (Hb _ _ _ Hw' _ _ Hh). unfold key. destruct m, m'; lia.
    - destruct (Hf _ _ _ _ _ Hw' Hww) as [-> ->]. unfold key. lia.
  Qed.

  Lemma blocked_source_waits st t t' : blocked_by st t t' -> exists l m, In (t, l, m) (waiting st).
  Proof.
    intros H. apply blocked_by_spec in H. destruct H as (l & m & Hw & _). exists l, m. exact Hw.
  Qed.

  Lemma path_source_waits st t t' : wait_path st t t' -> exists l m, In (t, l, m) (waiting st).
  Proof.
    intros H. inversion H as [? ? Hx | ? ? ? Hx _]; subst; eapply blocked_source_waits; exact Hx.
  Qed.

  Lemma path_increases st t t' :
    waiting_functional st -> below_wanted st -> wait_path st t t' ->
    forall l m l' m', In (t, l, m) (waiting st) -> In (t', l', m') (waiting st) -> key l m < key l' m'.
  Proof.
    intros Hf Hb Hp. induction Hp as [t t' H | t t1 t' H Hp IH]; intros l m l' m' Hw Hw'.
    - eapply hop_increases; eassumption.
    - assert (exists l1 m1, In (t1, l1, m1) (waiting st)) as (l1 & m1 & Hw1).
      { eapply path_source_waits; exact Hp. }
      pose proof (hop_increases _ _ _ _ _ _ _ Hf Hb H Hw Hw1).
      pose proof (IH _ _ _ _ Hw1 Hw'). lia.
  Qed.

  Theorem no_circular_wait tr :
    valid tr -> disciplined rank tr -> forall n, ~ circular_wait (st_at tr n).
  Proof.
    intros Hv Hd n [t Hp].
    pose proof (valid_waiting_functional _ Hv n) as Hf.
    pose proof (disciplined_below_wanted _ Hv Hd n) as Hb.
    assert (exists l m, In (t, l, m) (waiting (st_at tr n))) as (l & m & Hw).
    { eapply path_source_waits; exact Hp. }
    pose proof (path_increases _ _ _ Hf Hb Hp _ _ _ _ Hw Hw). lia.
  Qed.

  (* progress: from every waiting thread the waits-for chain ends in a thread that is
     blocked by nobody - it is running, or its lock can be granted *)
  Theorem some_thread_can_move tr (B : nat) :
    (forall c, rank c <= B) ->
    valid tr -> disciplined rank tr -> forall n t, is_waiting (st_at tr n) t ->
    exists t', wait_path0 (st_at tr n) t t' /\ blockers (st_at tr n) t' = [].
  Proof.
    intros HB Hv Hd n.
    pose proof (valid_waiting_functional _ Hv n) as Hf.
    pose proof (disciplined_below_wanted _ Hv Hd n) as Hb.
    set (st := st_at tr n) in *.
    assert (forall k t l m, In (t, l, m) (waiting st) -> 2 * B + 2 - key l m <= k ->
              exists t', wait_path0 st t t' /\ blockers st t' = []) as H.
    { induction k as [| k IH]; intros t l m Hw Hk.
      - exfalso. unfold key in Hk. specialize (HB (snd l)). destruct m; lia.
      - destruct (blockers st t) as [| t1 rest] eqn:E.
        + exists t. split; [constructor | exact E].
        + assert (blocked_by st t t1) as Hbl by (unfold blocked_by; rewrite E; left; reflexivity).
          destruct (blockers st t1) as [| t2 rest1] eqn:E1.
          * exists t1. split; [| exact E1]. econstructor; [exact Hbl | constructor].
          * assert (blocked_by st t1 t2) as Hbl1 by (unfold blocked_by; rewrite E1; left; reflexivity).
            destruct (blocked_source_waits _ _ _ Hbl1) as (l1 & m1 & Hw1).
            pose proof (hop_increases _ _ _ _ _ _ _ Hf Hb Hbl Hw Hw1) as Hlt.
            destruct (IH t1 l1 m1 Hw1 ltac:(lia)) as (t' & Hp & Hnb).
            exists t'. split; [| exact Hnb]. econstructor; eassumption. }
    intros t (l & m & Hw). eapply H; [exact Hw | reflexivity].
  Qed.
End Order.

(* the discipline from a table of edges and a rank certificate *)
Lemma edges_ok_disciplined table edges tr :
  edges_ok table edges = true -> covered_by edges tr -> disciplined (rank_of table) tr.
Proof.
  intros Hok Hc n t l m He l' m' Hh. unfold edges_ok in Hok. rewrite forallb_forall in Hok.
  specialize (Hok _ (Hc _ _ _ _ He _ _ Hh)). cbn [fst snd] in Hok. apply Nat.ltb_lt in Hok. exact Hok.
Qed.

Lemma rank_of_bound table c : rank_of table c <= rank_bound table.
Proof.
  unfold rank_of, rank_bound. induction table as [| [k v] r IH]; cbn [assoc_N fold_right snd].
  - lia.
  - destruct (N.eqb c k); [lia |]. etransitivity; [exact IH | lia].
Qed.

(* ------------------------------------------------------------------ *)
(* 2. lockset  =>  happens-before                                      *)

Lemma held_eq_dec (x y : lock * tid * mode) : {x = y} + {x <> y}.
Proof. repeat decide equality; apply N.eq_dec. Qed.

(* a lock that is held was acquired earlier and has been held ever since *)
Lemma acquired_since tr : forall b t l m,
  holds (st_at tr b) t l m ->
  exists k, k < b /\ nth_error tr k = Some (t, Acq l m) /\
            forall n, k < n <= b -> holds (st_at tr n) t l m.
Proof.
  induction b as [| b IH]; intros t l m Hh.
  - destruct Hh.
  - assert (holds (st_at tr b) t l m ->
            exists k, k < S b /\ nth_error tr k = Some (t, Acq l m) /\
                      forall n, k < n <= S b -> holds (st_at tr n) t l m) as Hold.
    { intros Hb. destruct (IH _ _ _ Hb) as (k & Hk & He & Hc). exists k. repeat split; [lia | exact He |].
      intros n Hn. destruct (Nat.eq_dec n (S b)) as [-> | Hne]; [exact Hh | apply Hc; lia]. }
    destruct (nth_error tr b) as [[t0 a] |] eqn:E.
    + rewrite (st_at_S _ _ _ E) in Hh. pose proof Hh as Hh'. rewrite holds_apply in Hh'.
      destruct a; try (apply Hold; exact Hh').
      * destruct Hh' as [Heq | Hb]; [| apply Hold; exact Hb].
        injection Heq as -> -> ->. exists b. repeat split; [lia | exact E |].
        intros n Hn. assert (n = S b) as -> by lia. rewrite (st_at_S _ _ _ E). exact Hh.
      * apply Hold. apply Hh'.
    + rewrite (st_at_past _ _ E) in Hh. apply Hold. exact Hh.
Qed.

(* a lock that is held at a and not any more at b was released in between *)
Lemma released_between tr : forall b a t l m,
  a <= b -> holds (st_at tr a) t l m -> ~ holds (st_at tr b) t l m ->
  exists k, a <= k < b /\ nth_error tr k = Some (t, Rel l m).
Proof.
  induction b as [| b IH]; intros a t l m Hab Ha Hb.
  - assert (a = 0) as -> by lia. contradiction.
  - destruct (Nat.eq_dec a (S b)) as [-> | Hne]; [contradiction |].
    assert (~ holds (st_at tr b) t l m -> exists k, a <= k < S b /\ nth_error tr k = Some (t, Rel l m)) as Hold.
    { intros Hnb. destruct (IH a t l m ltac:(lia) Ha Hnb) as (k & Hk & He). exists k. split; [lia | exact He]. }
    destruct (nth_error tr b) as [[t0 a0] |] eqn:E.
    + rewrite (st_at_S _ _ _ E), holds_apply in Hb.
      destruct a0; try (apply Hold; exact Hb).
      * apply Hold. intros H. apply Hb. right. exact H.
      * destruct (held_eq_dec (l, t, m) (l0, t0, m0)) as [Heq | Hneq].
        -- injection Heq as -> -> ->. exists b. split; [lia | exact E].
        -- apply Hold. intros H. apply Hb. split; assumption.
    + rewrite (st_at_past _ _ E) in Hb. apply Hold. exact Hb.
Qed.

Lemma conflict_sym m m' : conflict m m' -> conflict m' m.
Proof. unfold conflict. tauto. Qed.

(* mutual exclusion orders the two critical sections *)
Lemma ordered_by_lock tr i j t t' l m m' :
  valid tr -> i < j -> t <> t' ->
  holds (st_at tr i) t l m -> holds (st_at tr j) t' l m' -> conflict m m' ->
  exists k k', i <= k /\ k < k' /\ k' < j /\
     nth_error tr k = Some (t, Rel l m) /\ nth_error tr k' = Some (t', Acq l m').
Proof.
  intros Hv Hij Hne Hi Hj Hc.
  destruct (acquired_since _ _ _ _ _ Hj) as (k' & Hk' & Ek' & Hcont).
  destruct (Nat.lt_ge_cases k' i) as [Hlt | Hge].
  - exfalso. apply Hne. destruct (valid_exclusive _ Hv i) as [Hex _].
    eapply Hex; [exact Hi | apply Hcont; lia | exact Hc].
  - pose proof (Hv _ _ Ek') as Hen. cbn in Hen. destruct Hen as (_ & Hfree & _).
    assert (~ holds (st_at tr k') t l m) as Hnot.
    { intros H. apply (Hfree _ _ H). apply conflict_sym. exact Hc. }
    destruct (released_between _ _ _ _ _ _ Hge Hi Hnot) as (k & Hk & Ek).
    exists k, k'. repeat split; try lia; assumption.
Qed.

Lemma published_since tr o : forall n,
  In o (published (st_at tr n)) -> exists p t, p < n /\ nth_error tr p = Some (t, Pub o).
Proof.
  induction n as [| n IH]; intros H.
  - destruct H.
  - assert (In o (published (st_at tr n)) -> exists p t, p < S n /\ nth_error tr p = Some (t, Pub o)) as Hold.
    { intros Hn. destruct (IH Hn) as (p & t & Hp & E). exists p, t. split; [lia | exact E]. }
    destruct (nth_error tr n) as [[t0 a] |] eqn:E.
    + rewrite (st_at_S _ _ _ E) in H. destruct a; cbn [apply published] in H; try (apply Hold; exact H).
      cbn in H. destruct H as [<- | H]; [| apply Hold; exact H].
      exists n, t0. split; [lia | exact E].
    + rewrite (st_at_past _ _ E) in H. apply Hold. exact H.
Qed.

Theorem protected_ordered tr :
  valid tr -> pub_protocol tr ->
  forall i j, conflicting tr i j -> protected tr i j -> hb tr i j.
Proof.
  intros Hv (P2 & P3 & P4) i j Hc Hp.
  destruct Hc as (t & t' & x & w & a & p & s & w' & a' & p' & s' & Hij & Ei & Ej & Hne & _ & _).
  destruct Hp as [(t0 & t0' & ai & aj & l & m & m' & Ei' & Ej' & Hi & Hj & Hcf) | [(t0 & a0 & Ei' & Hpre) | (t0 & a0 & Ej' & Hpre)]].
  - rewrite Ei in Ei'. injection Ei' as <- <-. rewrite Ej in Ej'. injection Ej' as <- <-.
    destruct (ordered_by_lock _ _ _ _ _ _ _ _ Hv Hij Hne Hi Hj Hcf) as (k & k' & Hk & Hkk & Hkj & Ek & Ek').
    assert (i <> k) as Hik by (intros ->; rewrite Ei in Ek; discriminate).
    eapply hb_trans; [eapply hb_po with (i := i) (j := k); [lia | exact Ei | exact Ek] |].
    eapply hb_trans; [eapply hb_lock with (i := k) (j := k'); [lia | exact Ek | exact Ek' | exact Hcf] |].
    eapply hb_po with (i := k') (j := j); [lia | exact Ek' | exact Ej].
  - rewrite Ei in Ei'. injection Ei' as <- <-. cbn in Hpre. subst p.
    destruct (P4 _ _ _ (fst x) Ej eq_refl) as [(k & Hk & Ek) | Hall].
    + pose proof (Hv _ _ Ek) as Hen. cbn in Hen. destruct Hen as [_ Hpub].
      destruct (published_since _ _ _ Hpub) as (q & tq & Hq & Eq).
      assert (i < q) as Hiq.
      { destruct (Nat.lt_trichotomy q i) as [Hlt | [-> | Hgt]]; [| | exact Hgt].
        - exfalso. exact (P2 _ _ _ (fst x) Ei eq_refl eq_refl _ tq Hlt Eq).
        - rewrite Ei in Eq. discriminate. }
      assert (t = tq) as <- by (eapply (P3 _ _ _ Eq _ _ _ Hiq Ei); reflexivity).
      eapply hb_trans; [eapply hb_po with (i := i) (j := q); [lia | exact Ei | exact Eq] |].
      eapply hb_trans; [eapply hb_pub with (i := q) (j := k); [lia | exact Eq | exact Ek] |].
      eapply hb_po with (i := k) (j := j); [lia | exact Ek | exact Ej].
    + exfalso. apply Hne. eapply (Hall _ _ _ Hij Ei). reflexivity.
  - rewrite Ej in Ej'. injection Ej' as <- <-. cbn in Hpre. subst p'.
    exfalso. destruct (P4 _ _ _ (fst x) Ej eq_refl) as [(k & Hk & Ek) | Hall].
    + pose proof (Hv _ _ Ek) as Hen. cbn in Hen. destruct Hen as [_ Hpub].
      destruct (published_since _ _ _ Hpub) as (q & tq & Hq & Eq).
      exact (P2 _ _ _ (fst x) Ej eq_refl eq_refl q tq ltac:(lia) Eq).
    + apply Hne. eapply (Hall _ _ _ Hij Ei). reflexivity.
Qed.

(* the general statement: a trace in which every conflicting pair is protected has no data race *)
Theorem lockset_race_free tr :
  valid tr -> pub_protocol tr ->
  (forall i j, conflicting tr i j -> protected tr i j) ->
  forall i j, ~ data_race tr i j.
Proof.
  intros Hv Hp Hall i j [Hc Hn]. apply Hn. apply protected_ordered; auto.
Qed.

(* ------------------------------------------------------------------ *)
(* 3. from the static table                                            *)

Lemma holds_atleast_mode st t l wm :
  holds_atleast st t l wm -> exists m, holds st t l m /\ (wm = true -> m = MW).
Proof.
  intros [H | [-> H]].
  - exists MW. split; [exact H | reflexivity].
  - exists MR. split; [exact H | discriminate].
Qed.

Theorem table_protected T kind tr :
  table_ok T = true -> conforms T kind tr ->
  forall i j, conflicting tr i j -> ~ excused_at T tr i j -> protected tr i j.
Proof.
  intros Hok Hcf i j Hc Hnex.
  destruct Hc as (t & t' & x & w & a & p & s & w' & a' & p' & s' & Hij & Ei & Ej & Hne & Hw & Ha).
  destruct (Hcf _ _ _ _ _ _ _ Ei) as (r1 & In1 & Id1 & F1 & W1 & A1 & P1 & V1 & H1).
  destruct (Hcf _ _ _ _ _ _ _ Ej) as (r2 & In2 & Id2 & F2 & W2 & A2 & P2 & V2 & H2).
  unfold table_ok in Hok. rewrite forallb_forall in Hok. specialize (Hok _ In1).
  rewrite forallb_forall in Hok. specialize (Hok _ In2).
  destruct (pair_consistent T r1 r2) eqn:Hcons.
  2:{ exfalso. apply Hnex. exists t, t', x, w, a, p, s, w', a', p', s', r1, r2. repeat split; assumption. }
  clear Hok. unfold pair_consistent in Hcons.
  destruct (rows_conflict r1 r2) eqn:Hnc.
  2:{ exfalso. unfold rows_conflict in Hnc.
    assert (same_variant r1 r2 = true) as Hsv.
    { unfold same_variant. destruct (N.eqb (r_variant r1) 0) eqn:E1; [reflexivity |].
      destruct (N.eqb (r_variant r2) 0) eqn:E2; [reflexivity |]. cbn.
      apply N.eqb_neq in E1, E2. apply N.eqb_eq. rewrite <- (V1 E1), <- (V2 E2). reflexivity. }
    rewrite Hsv, F1, F2, N.eqb_refl, W1, W2, A1, A2 in Hnc.
    destruct w, a, w', a'; cbn in Hnc; try discriminate;
      destruct Hw as [Hw | Hw], Ha as [Ha | Ha]; discriminate. }
  assert (r_prepub r1 = true \/ r_prepub r2 = true \/
          common_guard T (r_field r1) (r_held r1) (r_held r2) = true) as Hcase.
  { destruct (r_prepub r1); [left; reflexivity |]. destruct (r_prepub r2); [right; left; reflexivity |].
    right; right. exact Hcons. }
  destruct Hcase as [Hp1 | [Hp2 | Hg]].
  - right; left. exists t, (Acc x w a p s). split; [exact Ei |]. cbn. congruence.
  - right; right. exists t', (Acc x w' a' p' s'). split; [exact Ej |]. cbn. congruence.
  - left. unfold common_guard in Hg. apply existsb_exists in Hg.
    destruct Hg as ([c wm1] & Hin1 & Hg). cbn [fst snd] in Hg. apply andb_true_iff in Hg.
    destruct Hg as [Hus Hg]. apply existsb_exists in Hg. destruct Hg as ([c2 wm2] & Hin2 & Hg).
    cbn [fst snd] in Hg. apply andb_true_iff in Hg. destruct Hg as [Hcc Hm]. apply N.eqb_eq in Hcc. subst c2.
    rewrite F1 in Hus.
    destruct (holds_atleast_mode _ _ _ _ (H1 _ _ Hin1 Hus)) as (m & Hm1 & Hm1w).
    destruct (holds_atleast_mode _ _ _ _ (H2 _ _ Hin2 Hus)) as (m' & Hm2 & Hm2w).
    exists t, t', (Acc x w a p s), (Acc x w' a' p' s'), (lock_inst T x c), m, m'.
    repeat split; try assumption.
    apply orb_true_iff in Hm. destruct Hm as [-> | ->]; [left; auto | right; auto].
Qed.

Theorem table_race_free T kind tr :
  table_ok T = true -> valid tr -> pub_protocol tr -> conforms T kind tr ->
  forall i j, conflicting tr i j -> ~ excused_at T tr i j -> hb tr i j.
Proof.
  intros Hok Hv Hp Hcf i j Hc Hnex. apply protected_ordered; auto.
  eapply table_protected; eassumption.
Qed.

(* with nothing excused: no data race at all *)
Lemma strict_no_excuse T : t_excused T = [] -> forall r1 r2, pair_excused T r1 r2 = false.
Proof. intros H r1 r2. unfold pair_excused. rewrite H. reflexivity. Qed.

Theorem strict_table_race_free T kind tr :
  table_strictly_ok T = true -> valid tr -> pub_protocol tr -> conforms T kind tr ->
  forall i j, ~ data_race tr i j.
Proof.
  intros Hok Hv Hp Hcf. apply lockset_race_free; [exact Hv | exact Hp |].
  intros i j Hc.
  set (T0 := mkTables (t_classes T) (t_fields T) (t_rows T) []).
  assert (table_ok T0 = true) as Hok0.
  { unfold table_ok, table_strictly_ok in *. cbn [t_rows T0]. rewrite forallb_forall in *.
    intros r1 In1. specialize (Hok _ In1). rewrite forallb_forall in *. intros r2 In2.
    specialize (Hok _ In2).
    replace (pair_consistent T0 r1 r2) with (pair_consistent T r1 r2) by reflexivity.
    rewrite Hok. reflexivity. }
  apply (table_protected T0 kind tr Hok0); [exact Hcf | exact Hc |].
  intros (t & t' & x & w & a & p & s & w' & a' & p' & s' & r1 & r2 & _ & _ & _ & _ & _ & _ & Hex).
  unfold pair_excused in Hex. cbn in Hex. discriminate.
Qed.

(* ------------------------------------------------------------------ *)
(* a waiting thread that nobody blocks can be granted its lock         *)

Lemma unblocked_enabled rank st t l m :
  below_wanted rank st -> In (t, l, m) (waiting st) -> blockers st t = [] -> enabled st (t, Acq l m).
Proof.
  intros Hb Hw Hnb. cbn. repeat split.
  - exact Hw.
  - intros t' m' Hh Hc.
    assert (blocked_by st t t') as H.
    { apply blocked_by_spec. exists l, m. split; [exact Hw |]. left. exists m'. split; assumption. }
    unfold blocked_by in H. rewrite Hnb in H. destruct H.
  - intros [m' Hh]. specialize (Hb _ _ _ Hw _ _ Hh). lia.
Qed.

(* ------------------------------------------------------------------ *)
(* the boolean validity check is sound                                 *)

Lemma waitsb_false st t : waitsb st t = false -> ~ is_waiting st t.
Proof.
  intros H (l & m & Hin). unfold waitsb in H.
  assert (existsb (fun w : tid * lock * mode => N.eqb (fst (fst w)) t) (waiting st) = true) as Ht.
  { apply existsb_exists. exists (t, l, m). split; [exact Hin | cbn; apply N.eqb_refl]. }
  congruence.
Qed.

Lemma enabledb_sound st e : enabledb st e = true -> enabled st e.
Proof.
  destruct e as [t a]. destruct a; cbn [enabledb enabled]; intros H.
  - apply negb_true_iff in H. apply waitsb_false. exact H.
  - rewrite !andb_true_iff in H. destruct H as [[H1 H2] H3]. repeat split.
    + apply existsb_exists in H1. destruct H1 as ([[t0 l0] m0] & Hin & Hb). cbn [fst snd] in Hb.
      rewrite !andb_true_iff in Hb. destruct Hb as [[E1 E2] E3].
      apply N.eqb_eq in E1. apply lock_eqb_eq in E2. apply mode_eqb_eq in E3. subst. exact Hin.
    + intros t' m' Hh Hc. rewrite forallb_forall in H2. specialize (H2 _ Hh). cbn [fst snd] in H2.
      rewrite lock_eqb_refl in H2. cbn in H2. apply negb_true_iff in H2.
      apply conflictb_spec in Hc. congruence.
    + intros [m' Hh]. apply negb_true_iff in H3.
      assert (existsb (fun h : lock * tid * mode => lock_eqb (fst (fst h)) l && N.eqb (snd (fst h)) t) (held st) = true) as Ht.
      { apply existsb_exists. exists (l, t, m'). split; [exact Hh |]. cbn [fst snd]. rewrite lock_eqb_refl, N.eqb_refl. reflexivity. }
      congruence.
  - rewrite andb_true_iff in H. destruct H as [H1 H2]. split.
    + apply negb_true_iff in H1. apply waitsb_false. exact H1.
    + apply existsb_exists in H2. destruct H2 as ([[l0 t0] m0] & Hin & Hb). cbn [fst snd] in Hb.
      rewrite !andb_true_iff in Hb. destruct Hb as [[E1 E2] E3].
      apply N.eqb_eq in E2. apply lock_eqb_eq in E1. apply mode_eqb_eq in E3. subst. exact Hin.
  - apply negb_true_iff in H. apply waitsb_false. exact H.
  - apply negb_true_iff in H. apply waitsb_false. exact H.
  - rewrite andb_true_iff in H. destruct H as [H1 H2]. split.
    + apply negb_true_iff in H1. apply waitsb_false. exact H1.
    + apply memN_In. exact H2.
Qed.

Lemma validb_from_sound : forall rest pre,
  validb_from (run pre) rest = true ->
  forall n e, nth_error rest n = Some e -> enabled (run (pre ++ firstn n rest)) e.
Proof.
  induction rest as [| e0 r IH]; intros pre Hv n e Hn.
  - destruct n; discriminate.
  - cbn [validb_from] in Hv. apply andb_true_iff in Hv. destruct Hv as [He Hr].
    destruct n as [| n].
    + cbn in Hn. injection Hn as <-. cbn [firstn]. rewrite app_nil_r. apply enabledb_sound. exact He.
    + cbn in Hn. cbn [firstn].
      replace (pre ++ e0 :: firstn n r) with ((pre ++ [e0]) ++ firstn n r) by (rewrite <- app_assoc; reflexivity).
      apply IH; [| exact Hn]. unfold run in *. rewrite fold_left_app. exact Hr.
Qed.

Theorem validb_sound tr : validb tr = true -> valid tr.
Proof.
  intros H n e Hn. unfold st_at. apply (validb_from_sound tr [] H n e Hn).
Qed.
