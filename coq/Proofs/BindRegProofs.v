(* The binding half of Model/Stack.v against the specification registry of Spec/BindReg.v:
   closed forms of AddBinding / RemoveBinding, the effect of every operation on the binding
   registry, and the invariant "at most one binding per server feature".
   Shared by the proofs of C09 and C03. *)
From Verif Require Import Base.Prelude Model.Stack Spec.StackObs Spec.BindReg Proofs.StackLemmas Proofs.StackInv.

(* ---------- abstraction of model entries ---------- *)
Definition strip (e : entry) : bentry := {| b_srv := e_srv e; b_ski := e_ski e; b_cli := e_cli e |}.
Definition abs (l : list entry) : list bentry := map strip l.

Lemma filter_abs (P : bentry -> bool) (Q : entry -> bool) l :
  (forall x, P (strip x) = Q x) -> filter P (abs l) = abs (filter Q l).
Proof.
  intros H. induction l as [|x l IH]; simpl; [reflexivity|].
  rewrite H. destruct (Q x); simpl; rewrite IH; reflexivity.
Qed.

Lemma existsb_abs (P : bentry -> bool) (Q : entry -> bool) l :
  (forall x, P (strip x) = Q x) -> existsb P (abs l) = existsb Q l.
Proof.
  intros H. induction l as [|x l IH]; simpl; [reflexivity|]. rewrite H, IH. reflexivity.
Qed.

Lemma on_srv_strip sf x : on_srv (srv_of sf) (strip x) = same_srv x sf.
Proof. reflexivity. Qed.

(* ---------- reflexivity of the comparison functions used by the monitors ---------- *)
Lemma eqb_opt_refl {A} (eqb : A -> A -> bool) o : (forall x, eqb x x = true) -> eqb_opt eqb o o = true.
Proof. intros H. destruct o; simpl; auto. Qed.

Lemma eqb_obs_event_refl k c ski e f lf :
  eqb_obs_event (OEvent k c ski e f lf) (OEvent k c ski e f lf) = true.
Proof.
  simpl. rewrite N.eqb_refl.
  rewrite (eqb_opt_refl eqb_eaddr e eqb_eaddr_refl), !(eqb_opt_refl eqb_faddr _ eqb_faddr_refl).
  destruct k, c; reflexivity.
Qed.

Lemma eqb_res_refl r : eqb_res r r = true.
Proof. destruct r as [[p c] e]. simpl. rewrite !N.eqb_refl. destruct e; reflexivity. Qed.

Lemma eqb_list_refl {A} (eqb : A -> A -> bool) l : (forall x, In x l -> eqb x x = true) -> eqb_list eqb l l = true.
Proof.
  induction l as [|x l IH]; simpl; intros H; [reflexivity|].
  rewrite (H x (or_introl eq_refl)). simpl. apply IH. intros y Hy. apply H. now right.
Qed.

Lemma same_multiset_refl {A} (eqb : A -> A -> bool) l :
  (forall x, In x l -> eqb x x = true) -> same_multiset eqb l l = true.
Proof.
  induction l as [|x l IH]; simpl; intros H; [reflexivity|].
  rewrite (H x (or_introl eq_refl)). apply IH. intros y Hy. apply H. now right.
Qed.

Lemma eqb_bentry_refl x : eqb_bentry x x = true.
Proof. unfold eqb_bentry, eqb_srv. rewrite eqb_eaddr_refl, !N.eqb_refl, eqb_faddr_refl. reflexivity. Qed.

Lemma nodupb_true l : NoDup l -> nodupb l = true.
Proof.
  induction 1 as [|x l Hn Hd IH]; simpl; [reflexivity|]. rewrite IH, andb_true_r.
  destruct (memN x l) eqn:E; [|reflexivity]. apply memN_In in E. contradiction.
Qed.

Lemma eqb_srv_eq a b : eqb_srv a b = true <-> a = b.
Proof.
  unfold eqb_srv. rewrite andb_true_iff, eqb_eaddr_eq, N.eqb_eq. destruct a, b; simpl.
  split; [intros [-> ->]; reflexivity | intros H; inversion H; auto].
Qed.

(* ---------- projections of model outputs ---------- *)
Lemma results_call p ctr ack err src dst :
  results (call_result p ctr ack err src dst) = expect_result p ctr ack err.
Proof. unfold call_result, expect_result. destruct err; [reflexivity|]. destruct ack; reflexivity. Qed.

Lemma call_no_bindev p ctr ack err src dst : filter is_bind_event (call_result p ctr ack err src dst) = [].
Proof. unfold call_result. destruct err; [reflexivity|]. destruct ack; reflexivity. Qed.

Lemma call_no_bindev' p ctr ack err src dst : existsb is_bind_event (call_result p ctr ack err src dst) = false.
Proof. unfold call_result. destruct err; [reflexivity|]. destruct ack; reflexivity. Qed.

Lemma gone_seen_eq out : gone_seen out = gone_of out.
Proof. reflexivity. Qed.

(* node-management calls: the datagram is processed iff the sender's node management is announced *)
Lemma registry_call_eq s p ctr ack c (f : st -> peer -> reg_call -> st * list obs * bool) :
  registry_call s p ctr ack c f =
  match sender_known s p with
  | None => (s, [])
  | Some pe => let '(s1, evs, err) := f s pe c in
               (s1, evs ++ call_result p ctr ack err (nm_addr (p_addr pe)) (nm_addr (Some LOCAL_DEV)))
  end.
Proof.
  unfold registry_call, with_source, sender_known.
  destruct (find_peer s p) as [pe|]; [|reflexivity].
  destruct (remote_feature pe (nm_addr None)); reflexivity.
Qed.

Lemma sender_known_ski s p pe : sender_known s p = Some pe -> p_ski pe = p /\ find_peer s p = Some pe.
Proof.
  unfold sender_known. destruct (find_peer s p) as [pe'|] eqn:Ep; [|discriminate].
  destruct (remote_feature pe' (nm_addr None)); [|discriminate].
  intros H. inversion H; subst. split; [exact (find_peer_ski _ _ _ Ep) | reflexivity].
Qed.

(* ---------- AddBinding in closed form ---------- *)
Definition unbound (s : st) (sf : lfeat) : bool := negb (existsb (fun x => same_srv x sf) (binds s)).

Lemma bindings_on_nil s sf : bindings_on s sf = [] <-> unbound s sf = true.
Proof.
  unfold bindings_on, unbound. induction (binds s) as [|x l IH]; simpl; [tauto|].
  destruct (same_srv x sf); simpl; [split; discriminate | exact IH].
Qed.

Definition bind_grant (s : st) (pe : peer) (c : reg_call) : option (lfeat * rent * faddr) :=
  match local_feature s (rc_srv c), rc_type c, remote_feature pe (rc_cli c) with
  | Some sf, Some t, Some (en, rf) =>
      if role_type_ok (lf_role sf) (lf_type sf) RServer t &&
         role_type_ok (rf_role rf) (rf_type rf) RClient t &&
         unbound s sf
      then Some (sf, en, rf_addr en rf) else None
  | _, _, _ => None
  end.

Lemma set_binds_same s : set_binds s (binds s) (next_bind s) = s.
Proof. destruct s; reflexivity. Qed.

Lemma add_binding_eq s pe c :
  add_binding s pe c =
  match bind_grant s pe c with
  | Some (sf, en, cli) =>
      (set_binds s (binds s ++ [mk_entry (N.succ (next_bind s)) sf (p_ski pe) cli]) (N.succ (next_bind s)),
       [ev_reg EvBind ChAdd (p_ski pe) en cli sf], false)
  | None => (s, [], true)
  end.
Proof.
  unfold add_binding, bind_grant.
  destruct (local_feature s (rc_srv c)) as [sf|]; [|reflexivity].
  destruct (rc_type c) as [t|]; [|reflexivity].
  destruct (role_type_ok (lf_role sf) (lf_type sf) RServer t); simpl.
  2:{ destruct (remote_feature pe (rc_cli c)) as [[en rf]|]; reflexivity. }
  pose proof (bindings_on_nil s sf) as Hb.
  destruct (bindings_on s sf) as [|b0 bl].
  - assert (Hu : unbound s sf = true) by (apply Hb; reflexivity). rewrite Hu.
    destruct (remote_feature pe (rc_cli c)) as [[en rf]|]; [|reflexivity].
    destruct (role_type_ok (rf_role rf) (rf_type rf) RClient t); reflexivity.
  - assert (Hu : unbound s sf = false).
    { destruct (unbound s sf); [|reflexivity]. destruct Hb as [_ Hb]. specialize (Hb eq_refl). discriminate. }
    rewrite Hu. destruct (remote_feature pe (rc_cli c)) as [[en rf]|]; [|reflexivity].
    rewrite andb_false_r. reflexivity.
Qed.

Lemma bind_grant_rent s pe c sf en cli : bind_grant s pe c = Some (sf, en, cli) ->
  find_rent pe (fa_ent cli) = Some en /\ unbound s sf = true.
Proof.
  unfold bind_grant. destruct (local_feature s (rc_srv c)) as [sf'|]; [|discriminate].
  destruct (rc_type c) as [t|]; [|discriminate].
  destruct (remote_feature pe (rc_cli c)) as [[en' rf]|] eqn:Erf; [|discriminate].
  destruct (role_type_ok (lf_role sf') (lf_type sf') RServer t); simpl; [|discriminate].
  destruct (role_type_ok (rf_role rf) (rf_type rf) RClient t); simpl; [|discriminate].
  destruct (unbound s sf') eqn:Eu; [|discriminate].
  intros H. inversion H; subst. split; [|exact Eu].
  simpl. apply remote_feature_rent in Erf. rewrite <- (find_rent_addr _ _ _ Erf) in Erf. exact Erf.
Qed.

(* ---------- RemoveBinding in closed form ---------- *)
Definition hit_e (p : N) (ca : faddr) (sf : lfeat) (x : entry) : bool :=
  N.eqb (e_ski x) p && eqb_faddr (e_cli x) ca && same_srv x sf.

Lemma hit_strip p ca sf x : hit p ca (srv_of sf) (strip x) = hit_e p ca sf x.
Proof. reflexivity. Qed.

Definition bind_del (s : st) (pe : peer) (c : reg_call) : option (lfeat * rent * rfeat) :=
  match remote_feature pe (rc_cli c), local_feature s (rc_srv c) with
  | Some (en, rf), Some sf =>
      if role_type_ok (lf_role sf) (lf_type sf) RServer (lf_type sf) &&
         has_binding s sf (rf_addr en rf) &&
         existsb (hit_e (p_ski pe) (default_dev pe (rc_cli c)) sf) (binds s)
      then Some (sf, en, rf) else None
  | _, _ => None
  end.

Lemma remove_binding_eq s pe c :
  remove_binding s pe c =
  match bind_del s pe c with
  | Some (sf, en, rf) =>
      (set_binds s (filter (fun x => negb (hit_e (p_ski pe) (default_dev pe (rc_cli c)) sf x)) (binds s)) (next_bind s),
       [ev_reg EvBind ChRemove (p_ski pe) en (rf_addr en rf) sf], false)
  | None => (s, [], true)
  end.
Proof.
  unfold remove_binding, bind_del.
  destruct (remote_feature pe (rc_cli c)) as [[en rf]|]; [|reflexivity].
  destruct (local_feature s (rc_srv c)) as [sf|]; [|reflexivity].
  destruct (role_type_ok (lf_role sf) (lf_type sf) RServer (lf_type sf)); simpl; [|reflexivity].
  destruct (has_binding s sf (rf_addr en rf)); simpl; [|reflexivity].
  rewrite (filter_keeps_all (hit_e (p_ski pe) (default_dev pe (rc_cli c)) sf)).
  destruct (existsb _ (binds s)); reflexivity.
Qed.

(* ---------- at most one binding per server feature ---------- *)
Definition BSingle (s : st) : Prop := NoDup (map e_srv (binds s)).

Lemma same_srv_eq x sf : same_srv x sf = true <-> e_srv x = srv_of sf.
Proof.
  unfold same_srv, srv_of. rewrite andb_true_iff, eqb_eaddr_eq, N.eqb_eq. destruct (e_srv x); simpl.
  split; [intros [-> ->]; reflexivity | intros H; inversion H; auto].
Qed.

Lemma unbound_notin s sf : unbound s sf = true -> ~ In (srv_of sf) (map e_srv (binds s)).
Proof.
  unfold unbound. intros H Hin. apply in_map_iff in Hin. destruct Hin as [x [Hx Hin]].
  apply negb_true_iff in H. assert (E : existsb (fun x => same_srv x sf) (binds s) = true).
  { apply existsb_exists. exists x. split; [exact Hin | apply same_srv_eq; exact Hx]. }
  rewrite E in H. discriminate.
Qed.

Lemma nodup_map_filter {A B} (f : A -> B) (P : A -> bool) l : NoDup (map f l) -> NoDup (map f (filter P l)).
Proof.
  induction l as [|x l IH]; simpl; intros H; [constructor|].
  inversion H as [|? ? Hn Hd]; subst. destruct (P x); simpl; [|auto].
  constructor; [|auto]. intros Hin. apply Hn. apply in_map_iff in Hin. destruct Hin as [y [Hy Hin]].
  apply in_map_iff. exists y. split; [exact Hy|]. apply filter_In in Hin. tauto.
Qed.

(* two entries on one server feature are the same entry *)
Lemma single_same l x y : NoDup (map e_srv l) -> In x l -> In y l -> e_srv x = e_srv y -> x = y.
Proof.
  induction l as [|z l IH]; simpl; intros Hd Hx Hy E; [contradiction|].
  inversion Hd as [|? ? Hn Hd']; subst.
  destruct Hx as [->|Hx], Hy as [->|Hy]; [reflexivity | | | apply IH; assumption].
  - exfalso. apply Hn. rewrite E. apply in_map. exact Hy.
  - exfalso. apply Hn. rewrite <- E. apply in_map. exact Hx.
Qed.

(* under BSingle, the two tests of RemoveBinding collapse: the named address must be the
   announced address of the client feature, and the pair must be bound BY THE CALLING CONNECTION
   (HasLocalFeatureRemoteBinding itself compares addresses only) *)
Lemma del_tests s sf p ca cli : BSingle s ->
  has_binding s sf cli && existsb (hit_e p ca sf) (binds s) = eqb_faddr ca cli && existsb (hit_e p ca sf) (binds s).
Proof.
  intros Hs. unfold has_binding, bindings_on.
  destruct (existsb (hit_e p ca sf) (binds s)) eqn:Eh; [|rewrite !andb_false_r; reflexivity].
  rewrite !andb_true_r. apply existsb_exists in Eh. destruct Eh as [y [Hy Hh]].
  unfold hit_e in Hh. apply andb_true_iff in Hh. destruct Hh as [Hc Hsrv]. apply andb_true_iff in Hc. destruct Hc as [_ Hc]. apply eqb_faddr_eq in Hc.
  destruct (eqb_faddr ca cli) eqn:E.
  - apply eqb_faddr_eq in E. subst cli. apply existsb_exists. exists y. split.
    + apply filter_In. auto.
    + rewrite Hc. apply eqb_faddr_refl.
  - destruct (existsb _ _) eqn:Ex; [|reflexivity]. exfalso.
    apply existsb_exists in Ex. destruct Ex as [x [Hx Hxc]]. apply filter_In in Hx. destruct Hx as [Hx Hxs].
    apply eqb_faddr_eq in Hxc.
    assert (x = y).
    { apply (single_same (binds s)); try assumption. apply same_srv_eq in Hxs, Hsrv. congruence. }
    subst y. assert (ca = cli) by congruence. subst. rewrite eqb_faddr_refl in E. discriminate.
Qed.

(* ---------- the effect of every operation on the binding registry ---------- *)
Record bframe (s s1 : st) : Prop := { bf_binds : binds s1 = binds s; bf_next : next_bind s1 = next_bind s }.

Lemma bframe_refl s : bframe s s.
Proof. constructor; reflexivity. Qed.

Definition no_bindev (out : list obs) : Prop := existsb is_bind_event out = false.

Lemma no_bindev_filter out : no_bindev out -> filter is_bind_event out = [].
Proof.
  unfold no_bindev. induction out as [|x l IH]; simpl; [reflexivity|].
  destruct (is_bind_event x); simpl; [discriminate | exact IH].
Qed.

Lemma add_subscription_bq s pe c :
  let '(s1, evs, err) := add_subscription s pe c in bframe s s1 /\ no_bindev evs.
Proof.
  unfold add_subscription, no_bindev.
  destruct (local_feature s (rc_srv c)) as [sf|]; [|split; [apply bframe_refl | reflexivity]].
  destruct (rc_type c) as [t|]; [|split; [apply bframe_refl | reflexivity]].
  destruct (negb (role_type_ok (lf_role sf) (lf_type sf) RServer t)); [split; [apply bframe_refl | reflexivity]|].
  destruct (remote_feature pe (rc_cli c)) as [[en rf]|]; [|split; [apply bframe_refl | reflexivity]].
  destruct (negb (role_type_ok (rf_role rf) (rf_type rf) RClient t)); [split; [apply bframe_refl | reflexivity]|].
  cbv zeta. destruct (existsb _ (subs s)); split; try reflexivity; constructor; reflexivity.
Qed.

Lemma remove_subscription_bq s pe c :
  let '(s1, evs, err) := remove_subscription s pe c in bframe s s1 /\ no_bindev evs.
Proof.
  unfold remove_subscription, no_bindev.
  destruct (remote_feature pe (rc_cli c)) as [[en rf]|]; [|split; [apply bframe_refl | reflexivity]].
  destruct (local_feature s (rc_srv c)) as [sf|]; [|split; [apply bframe_refl | reflexivity]].
  cbv zeta. destruct (Nat.eqb _ _); split; try reflexivity; constructor; reflexivity.
Qed.

Lemma registry_call_bq s p ctr ack c (f : st -> peer -> reg_call -> st * list obs * bool) :
  (forall s pe c, let '(s1, evs, err) := f s pe c in bframe s s1 /\ no_bindev evs) ->
  let '(s1, out) := registry_call s p ctr ack c f in bframe s s1 /\ no_bindev out.
Proof.
  intros Hf. rewrite registry_call_eq. destruct (sender_known s p) as [pe|]; [|split; [apply bframe_refl | reflexivity]].
  specialize (Hf s pe c). destruct (f s pe c) as [[s1 evs] err]. destruct Hf as [H1 H2].
  split; [exact H1|]. unfold no_bindev in *. rewrite existsb_app, H2, call_no_bindev'. reflexivity.
Qed.

Lemma notify_no_bindev s sf fn v : existsb is_bind_event (notify_subscribers s sf fn v) = false.
Proof. unfold notify_subscribers. induction (filter _ (subs s)) as [|x l IH]; simpl; [reflexivity | exact IH]. Qed.

Lemma listing_no_bindev p l : existsb is_bind_event (listing p l) = false.
Proof. unfold listing. induction (filter _ l) as [|x r IH]; simpl; [reflexivity | exact IH]. Qed.

(* operations that do not concern the binding registry *)
Definition bind_neutral (o : op) : bool :=
  match o with
  | BindCall _ _ _ _ | BindDelete _ _ _ _ | Connect _ | Disconnect _ | DiscoveryNotify _ _ _ _ | DiscoveryReply _ _ => false
  | _ => true
  end.

Lemma neutral_ops_frame s o : bind_neutral o = true ->
  let '(s1, out) := step s o in bframe s s1 /\ no_bindev out.
Proof.
  destruct o; simpl bind_neutral; try discriminate; intros _; cbn [step].
  - (* AddLocalEntity *) destruct (existsb _ (lents s)); split; try reflexivity; constructor; reflexivity.
  - (* AddLocalFeature *) destruct (find _ (lents s)); split; try reflexivity; constructor; reflexivity.
  - (* AddFunction *) split; [constructor; reflexivity | reflexivity].
  - (* SubCall *) apply registry_call_bq. intros. apply add_subscription_bq.
  - (* SubDelete *) apply registry_call_bq. intros. apply remove_subscription_bq.
  - (* SetData *)
    destruct (find_lfeat s e (Some f)) as [lf|]; [|split; [apply bframe_refl | reflexivity]].
    destruct (fn_registered (lf_type lf) fn); [|split; [apply bframe_refl | reflexivity]].
    split; [constructor; reflexivity | apply notify_no_bindev].
  - (* Write *)
    unfold with_source. destruct (find_peer s p) as [pe|]; [|split; [apply bframe_refl | reflexivity]].
    destruct (remote_feature pe src) as [[en rf]|]; [|split; [apply bframe_refl | reflexivity]].
    destruct (local_feature s dst) as [lf|]; [|split; [apply bframe_refl | reflexivity]].
    destruct (assoc_N fn (lf_ops lf)) as [[rd [|]]|]; try (split; [apply bframe_refl | reflexivity]).
    destruct (negb (has_binding s lf (rf_addr en rf))); [split; [apply bframe_refl | reflexivity]|].
    destruct (negb (fn_registered (lf_type lf) fn)); [split; [apply bframe_refl | reflexivity]|].
    split; [constructor; reflexivity|]. unfold no_bindev. rewrite existsb_app, notify_no_bindev. destruct ack; reflexivity.
  - (* ListSubs *) split; [apply bframe_refl | apply listing_no_bindev].
  - (* ListBinds *) split; [apply bframe_refl | apply listing_no_bindev].
  - (* LocalSubscribe *)
    unfold local_request. destruct (find_lfeat s e (Some f)) as [lf|]; [|split; [apply bframe_refl | reflexivity]].
    destruct (fa_dev r); [|split; [apply bframe_refl | reflexivity]].
    destruct (peer_by_addr s n); [|split; [apply bframe_refl | reflexivity]].
    destruct (eqb_role (lf_role lf) RServer); split; try reflexivity; constructor; reflexivity.
  - (* LocalBind *)
    unfold local_request. destruct (find_lfeat s e (Some f)) as [lf|]; [|split; [apply bframe_refl | reflexivity]].
    destruct (fa_dev r); [|split; [apply bframe_refl | reflexivity]].
    destruct (peer_by_addr s n); [|split; [apply bframe_refl | reflexivity]].
    destruct (eqb_role (lf_role lf) RServer); split; try reflexivity; constructor; reflexivity.
  - destruct (find_lfeat s e (Some f)); split; try reflexivity; apply bframe_refl.
  - destruct (find_lfeat s e (Some f)); split; try reflexivity; apply bframe_refl.
  - destruct (find_lfeat s e (Some f)) as [lf|]; [destruct (assoc_N fn (lf_data lf))|]; split; try reflexivity; apply bframe_refl.
  - split; [apply bframe_refl | reflexivity].
  - (* LocalUnsubscribe *)
    unfold local_unrequest. destruct (find_lfeat s e (Some f)) as [lf|]; [|split; [apply bframe_refl | reflexivity]].
    destruct (fa_dev r); [|split; [apply bframe_refl | reflexivity]].
    destruct (peer_by_addr s n); split; try reflexivity; constructor; reflexivity.
  - (* LocalUnbind *)
    unfold local_unrequest. destruct (find_lfeat s e (Some f)) as [lf|]; [|split; [apply bframe_refl | reflexivity]].
    destruct (fa_dev r); [|split; [apply bframe_refl | reflexivity]].
    destruct (peer_by_addr s n); split; try reflexivity; constructor; reflexivity.
Qed.

(* teardown *)
Lemma connect_binds s p : RegOK s -> binds (fst (step s (Connect p))) = not_of p (binds s).
Proof.
  intros Hok. cbn [step]. pose proof (disconnect_spec s p Hok) as Hd.
  destruct (find_peer s p) as [pe|] eqn:Ep.
  - destruct (disconnect s p) as [s0 evs]. destruct Hd as [[_ _ H3 _] _]. simpl. exact H3.
  - simpl. unfold disconnect in Hd. rewrite Ep in Hd. destruct Hd as [[_ _ H3 _] _]. exact H3.
Qed.

Lemma disconnect_binds s p : RegOK s -> binds (fst (step s (Disconnect p))) = not_of p (binds s).
Proof.
  intros Hok. cbn [step]. pose proof (disconnect_spec s p Hok) as Hd.
  destruct (disconnect s p) as [s0 evs]. destruct Hd as [[_ _ H3 _] _]. exact H3.
Qed.

Lemma discovery_notify_binds s p ctr ack m : RegOK s ->
  binds (fst (step s (DiscoveryNotify p ctr ack m))) = drop p (gone_of (snd (step s (DiscoveryNotify p ctr ack m)))) (binds s).
Proof.
  intros Hok. cbn [step]. unfold with_source.
  destruct (find_peer s p) as [pe|] eqn:Ep; [|simpl; rewrite drop_nil; reflexivity].
  destruct (remote_feature pe (nm_addr None)); [|simpl; rewrite drop_nil; reflexivity].
  destruct (dm_ents m) as [|d0 dr] eqn:Edm.
  - simpl. rewrite drop_nil. reflexivity.
  - rewrite <- Edm. destruct (notify_entries s p m (dm_ents m)) as [[s1 evs] err] eqn:En.
    destruct (notify_entries_spec _ _ _ _ _ _ _ Hok En) as [_ [[_ _ Hb1 _] _]].
    simpl fst. simpl snd. rewrite gone_of_app.
    replace (gone_of (call_result p ctr ack err (nm_addr (p_addr pe)) (nm_addr (Some LOCAL_DEV)))) with (@nil eaddr)
      by (unfold call_result; destruct err; [|destruct ack]; reflexivity).
    rewrite app_nil_r. exact Hb1.
Qed.

Lemma drop_gone_nil p r : drop_gone p [] r = r.
Proof. unfold drop_gone. apply filter_all. intros x _. simpl. rewrite andb_false_r. reflexivity. Qed.

(* a discovery reply: completion of the node-management address, then the entities it no longer lists *)
Lemma discovery_reply_binds s p m : RegOK s ->
  binds (fst (step s (DiscoveryReply p m))) = drop p (gone_of (snd (step s (DiscoveryReply p m)))) (completed s p m (binds s)).
Proof. intros Hok. exact (proj1 (proj2 (proj2 (reply_step_spec s p m Hok)))). Qed.

Lemma strip_complete p d x : strip (complete_one p (Some d) x) = complete_bentry p d (strip x).
Proof.
  unfold complete_one, complete_bentry, complete_cli, strip. simpl.
  destruct (N.eqb (e_ski x) p); simpl; [|reflexivity].
  destruct (eqb_faddr (e_cli x) (nm_addr None)); reflexivity.
Qed.

Lemma after_reply_abs s p m l :
  after_reply s p m (snd (step s (DiscoveryReply p m))) (abs l) =
  abs (drop p (gone_of (snd (step s (DiscoveryReply p m)))) (completed s p m l)).
Proof.
  unfold after_reply. rewrite nm_completion_model. unfold drop_gone, drop, completed.
  rewrite <- (filter_abs (fun x => negb (N.eqb (b_ski x) p && existsb (eqb_eaddr (fa_ent (b_cli x))) (gone_of (snd (step s (DiscoveryReply p m)))))))
    by (intros x; reflexivity).
  f_equal. destruct (model_completion s p m) as [d|]; [|reflexivity].
  unfold complete_nm_addr, abs. rewrite !map_map. apply map_ext. intros x. symmetry. apply strip_complete.
Qed.

Lemma completed_srv s p m l : map e_srv (completed s p m l) = map e_srv l.
Proof.
  unfold completed. destruct (model_completion s p m) as [d|]; [|reflexivity].
  unfold complete_nm_addr. rewrite map_map. apply map_ext. intros x. apply complete_one_props.
Qed.

Lemma drop_peer_abs p l : drop_peer p (abs l) = abs (not_of p l).
Proof. unfold drop_peer, not_of. apply filter_abs. intros x. reflexivity. Qed.

Lemma drop_gone_abs p g l : drop_gone p g (abs l) = abs (drop p g l).
Proof. unfold drop_gone, drop. apply filter_abs. intros x. reflexivity. Qed.

(* ---------- the invariant of the binding registry ---------- *)
Record BInv (s : st) : Prop := { bi_s : SInv s; bi_single : BSingle s }.

Lemma binv_init : BInv init.
Proof. constructor; [exact sinv_init | constructor]. Qed.

Lemma bsingle_filter s s1 P : binds s1 = filter P (binds s) -> BSingle s -> BSingle s1.
Proof. unfold BSingle. intros ->. apply nodup_map_filter. Qed.

Theorem binv_step s o : BInv s -> BInv (fst (step s o)).
Proof.
  intros [Hs Hb]. constructor; [apply sinv_step; exact Hs|].
  pose proof (si_ok _ Hs) as Hok.
  destruct (bind_neutral o) eqn:En.
  { pose proof (neutral_ops_frame s o En) as Hf. destruct (step s o) as [s1 out]. destruct Hf as [[H1 _] _].
    simpl. unfold BSingle. rewrite H1. exact Hb. }
  destruct o; try discriminate; clear En.
  - apply (bsingle_filter s _ (fun x => negb (N.eqb (e_ski x) p))); [apply connect_binds; exact Hok | exact Hb].
  - (* DiscoveryReply *)
    unfold BSingle. rewrite (discovery_reply_binds s p m Hok). unfold drop.
    apply nodup_map_filter. rewrite completed_srv. exact Hb.
  - apply (bsingle_filter s _ (fun x => negb (N.eqb (e_ski x) p && existsb (eqb_eaddr (fa_ent (e_cli x)))
             (gone_of (snd (step s (DiscoveryNotify p ctr ack m))))))); [apply discovery_notify_binds; exact Hok | exact Hb].
  - (* BindCall *)
    cbn [step]. rewrite registry_call_eq. destruct (sender_known s p) as [pe|]; [|exact Hb].
    rewrite add_binding_eq. destruct (bind_grant s pe c) as [[[sf en] cli]|] eqn:Eg; [|exact Hb].
    simpl. unfold BSingle. simpl. rewrite map_app. simpl.
    apply NoDup_snoc; [exact Hb|]. apply unbound_notin. apply (bind_grant_rent _ _ _ _ _ _ Eg).
  - (* BindDelete *)
    cbn [step]. rewrite registry_call_eq. destruct (sender_known s p) as [pe|]; [|exact Hb].
    rewrite remove_binding_eq. destruct (bind_del s pe c) as [[[sf en] rf]|]; [|exact Hb].
    simpl. unfold BSingle. simpl. apply nodup_map_filter. exact Hb.
  - apply (bsingle_filter s _ (fun x => negb (N.eqb (e_ski x) p))); [apply disconnect_binds; exact Hok | exact Hb].
Qed.

Theorem binv_run ops : forall s, BInv s -> BInv (fst (run s ops)).
Proof.
  induction ops as [|o ops IH]; intros s I; simpl; [exact I|].
  pose proof (binv_step s o I) as I1. destruct (step s o) as [s1 out]. simpl in I1.
  specialize (IH s1 I1). destruct (run s1 ops) as [s2 tr]. exact IH.
Qed.

(* the explicit corollary: at most one binding per local server feature *)
Lemma bsingle_at_most_one s sf : BSingle s -> (length (bindings_on s sf) <= 1)%nat.
Proof.
  unfold BSingle, bindings_on. induction (binds s) as [|x l IH]; simpl; intros Hd; [lia|].
  inversion Hd as [|? ? Hn Hd']; subst. destruct (same_srv x sf) eqn:E; simpl; [|auto].
  assert (Hnone : filter (fun y => same_srv y sf) l = []).
  { apply filter_none. intros y Hy. destruct (same_srv y sf) eqn:Ey; [|reflexivity].
    exfalso. apply Hn. apply same_srv_eq in E, Ey. rewrite E, <- Ey. apply in_map. exact Hy. }
  rewrite Hnone. simpl. lia.
Qed.
