(* C20 — proofs about Model/UseCase.v against Spec/UseCaseSpec.v. *)
From Verif Require Import Base.Prelude Model.UseCase Spec.UseCaseSpec.

Arguments key_eqb : simpl never.

(* ---------- small facts ---------- *)

Lemma key_eqb_eq k k' : key_eqb k k' = true <-> k = k'.
Proof.
  destruct k as [[e a] n], k' as [[e' a'] n']. unfold key_eqb.
  rewrite !andb_true_iff, !N.eqb_eq. split.
  - intros [[-> ->] ->]. reflexivity.
  - intros H. inversion H. auto.
Qed.

Lemma key_eqb_refl k : key_eqb k k = true.
Proof. apply key_eqb_eq. reflexivity. Qed.

Lemma key_eqb_sym k k' : key_eqb k k' = key_eqb k' k.
Proof.
  destruct (key_eqb k k') eqn:E.
  - apply key_eqb_eq in E. subst. symmetry. apply key_eqb_refl.
  - destruct (key_eqb k' k) eqn:E'; [|reflexivity].
    apply key_eqb_eq in E'. subst. rewrite key_eqb_refl in E. discriminate.
Qed.

Lemma eqb_Ns_refl l : eqb_Ns l l = true.
Proof. induction l as [|x l IH]; simpl; [reflexivity|]. rewrite N.eqb_refl. exact IH. Qed.

Lemma sup_eqb_refl s : sup_eqb s s = true.
Proof. unfold sup_eqb. rewrite !N.eqb_refl, eqb_reflx, eqb_Ns_refl. reflexivity. Qed.

Lemma osup_eqb_refl o : osup_eqb o o = true.
Proof. destruct o; simpl; [apply sup_eqb_refl | reflexivity]. Qed.

Lemma eqb_sups_refl l : eqb_sups l l = true.
Proof. induction l as [|x l IH]; simpl; [reflexivity|]. rewrite sup_eqb_refl. exact IH. Qed.

Lemma eqb_infos_refl l : eqb_infos l l = true.
Proof. induction l as [|x l IH]; simpl; [reflexivity|]. rewrite !N.eqb_refl, eqb_sups_refl. exact IH. Qed.

Lemma assoc_N_app {A} k (l l' : list (N * A)) :
  assoc_N k (l ++ l') = match assoc_N k l with Some v => Some v | None => assoc_N k l' end.
Proof.
  induction l as [|[k' v] l IH]; simpl; [reflexivity|].
  destruct (N.eqb k k'); [reflexivity | exact IH].
Qed.

Lemma assoc_N_remove {A} k t (l : list (N * A)) :
  assoc_N k (remove_N t l) = if N.eqb k t then None else assoc_N k l.
Proof.
  induction l as [|[k' v] l IH]; simpl; [destruct (N.eqb k t); reflexivity|].
  destruct (N.eqb_spec t k') as [->|Hne]; simpl.
  - rewrite IH. destruct (N.eqb_spec k k') as [->|Hk]; reflexivity.
  - rewrite IH. destruct (N.eqb_spec k k') as [->|Hk].
    + destruct (N.eqb_spec k' t) as [->|_]; [congruence | reflexivity].
    + reflexivity.
Qed.

Lemma assoc_N_notin {A} k (l : list (N * A)) : ~ In k (map fst l) -> assoc_N k l = None.
Proof.
  induction l as [|[k' v] l IH]; simpl; intros H; [reflexivity|].
  destruct (N.eqb_spec k k') as [->|Hne]; [exfalso; apply H; now left|].
  apply IH. intros Hin. apply H. now right.
Qed.

Lemma assoc_N_none_notin {A} k (l : list (N * A)) : assoc_N k l = None -> ~ In k (map fst l).
Proof.
  induction l as [|[k' v] l IH]; simpl; intros H; [tauto|].
  destruct (N.eqb_spec k k') as [->|Hne]; [discriminate|].
  intros [E|Hin]; [congruence | exact (IH H Hin)].
Qed.

Lemma NoDup_snoc {A} (l : list A) x : NoDup l -> ~ In x l -> NoDup (l ++ [x]).
Proof.
  induction l as [|y l IH]; simpl; intros Hd Hn; [constructor; [tauto | constructor]|].
  inversion Hd as [|a b Hy Hd']; subst. constructor.
  - intros Hin. apply in_app_or in Hin. destruct Hin as [Hin|[Heq|[]]]; [exact (Hy Hin)|].
    apply Hn. left. symmetry. exact Heq.
  - apply IH; [exact Hd' | intros Hin; apply Hn; now right].
Qed.

(* ---------- the specification map ---------- *)

Lemma reg_lookup_remove k k' r :
  reg_lookup k' (reg_remove k r) = if key_eqb k k' then None else reg_lookup k' r.
Proof.
  induction r as [|[k0 v] r IH]; simpl; [destruct (key_eqb k k'); reflexivity|].
  destruct (key_eqb k k0) eqn:E0; simpl.
  - rewrite IH. apply key_eqb_eq in E0. subst k0.
    rewrite (key_eqb_sym k' k). destruct (key_eqb k k'); reflexivity.
  - rewrite IH. destruct (key_eqb k' k0) eqn:E1; [|reflexivity].
    apply key_eqb_eq in E1. subst k0. rewrite E0. reflexivity.
Qed.

Lemma reg_lookup_filter_ent k e r :
  reg_lookup k (filter (fun kv => negb (N.eqb (key_ent (fst kv)) e)) r) =
  if N.eqb (key_ent k) e then None else reg_lookup k r.
Proof.
  induction r as [|[k0 v] r IH]; simpl; [destruct (N.eqb (key_ent k) e); reflexivity|].
  destruct (N.eqb_spec (key_ent k0) e) as [He|He]; simpl.
  - rewrite IH. destruct (key_eqb k k0) eqn:E1; [|reflexivity].
    apply key_eqb_eq in E1. subst k0. rewrite He, N.eqb_refl. reflexivity.
  - rewrite IH. destruct (key_eqb k k0) eqn:E1; [|reflexivity].
    apply key_eqb_eq in E1. subst k0. destruct (N.eqb_spec (key_ent k) e); [congruence | reflexivity].
Qed.

(* the list-level effect of an operation *)
Definition apply_list (l : list info) (u : uop) : list info :=
  match u with
  | UAdd e a s => info_add e a s l
  | URemove e a n => info_remove e a n l
  | USetAvail e a n av => info_set e a n av l
  | URemoveAll e | URemoveEntity e => info_remove_all e l
  end.

Lemma data_list_apply d u : data_list (apply_uop d u) = apply_list (data_list d) u.
Proof. destruct u, d; reflexivity. Qed.

(* what [spec_apply] does to a lookup, in one formula *)
Definition spec_lookup (r : reg) (u : uop) (k : key) : option support :=
  match u with
  | UAdd e a s => if key_eqb k (e, a, s_name s) then Some s else reg_lookup k r
  | URemove e a n => if key_eqb k (e, a, n) then None else reg_lookup k r
  | USetAvail e a n av =>
      if key_eqb k (e, a, n) then option_map (fun s => with_avail s av) (reg_lookup k r) else reg_lookup k r
  | URemoveAll e | URemoveEntity e => if N.eqb (key_ent k) e then None else reg_lookup k r
  end.

Lemma spec_apply_lookup r u k : reg_lookup k (spec_apply r u) = spec_lookup r u k.
Proof.
  destruct u as [e a s|e a n|e a n av|e|e]; simpl.
  - rewrite reg_lookup_remove, (key_eqb_sym (e, a, s_name s) k). destruct (key_eqb k (e, a, s_name s)); reflexivity.
  - rewrite reg_lookup_remove, (key_eqb_sym (e, a, n) k). reflexivity.
  - destruct (reg_lookup (e, a, n) r) as [s|] eqn:E; simpl.
    + rewrite reg_lookup_remove, (key_eqb_sym (e, a, n) k).
      destruct (key_eqb k (e, a, n)) eqn:Ek; [|reflexivity].
      apply key_eqb_eq in Ek. subst k. rewrite E. reflexivity.
    + destruct (key_eqb k (e, a, n)) eqn:Ek; [|reflexivity].
      apply key_eqb_eq in Ek. subst k. rewrite E. reflexivity.
  - apply reg_lookup_filter_ent.
  - apply reg_lookup_filter_ent.
Qed.

(* ---------- the announced list ---------- *)

Definition ea (i : info) : N * N := (i_ent i, i_actor i).

Lemma same_ea_true e a i : same_ea e a i = true <-> ea i = (e, a).
Proof.
  unfold same_ea, ea. rewrite andb_true_iff, !N.eqb_eq. split.
  - intros [-> ->]. reflexivity.
  - intros H. inversion H. auto.
Qed.

Lemma named_true n s : named n s = true <-> s_name s = n.
Proof. unfold named. apply N.eqb_eq. Qed.

Lemma same_ea_fields e a i : same_ea e a i = true -> i_ent i = e /\ i_actor i = a.
Proof. unfold same_ea. rewrite andb_true_iff, !N.eqb_eq. tauto. Qed.

Lemma same_ea_rebuild e a i x :
  same_ea e a {| i_ent := i_ent i; i_actor := i_actor i; i_sups := x |} = same_ea e a i.
Proof. reflexivity. Qed.

(* the key (e', a', n') differs from (e, a, n) as soon as the entry of (e, a) is not one of (e', a') *)
Lemma key_neq_ea e a n e' a' n' i :
  same_ea e a i = true -> same_ea e' a' i = false -> key_eqb (e', a', n') (e, a, n) = false.
Proof.
  intros H1 H2. destruct (key_eqb (e', a', n') (e, a, n)) eqn:Ek; [|reflexivity].
  apply key_eqb_eq in Ek. inversion Ek; subst. congruence.
Qed.

Lemma key_eqb_same_ea e a n n' : key_eqb (e, a, n') (e, a, n) = N.eqb n' n.
Proof. unfold key_eqb. rewrite !N.eqb_refl. reflexivity. Qed.

Lemma sup_find_has n l : has_name n l = match sup_find n l with Some _ => true | None => false end.
Proof.
  induction l as [|x l IH]; simpl; [reflexivity|].
  destruct (named n x); simpl; [reflexivity | exact IH].
Qed.

Lemma sup_find_name n l s : sup_find n l = Some s -> s_name s = n.
Proof.
  induction l as [|x l IH]; simpl; [discriminate|].
  destruct (named n x) eqn:E; intros H; [inversion H; subst; apply named_true; exact E | exact (IH H)].
Qed.

Lemma listed_none e a n l : (forall i, In i l -> same_ea e a i = false) -> listed l (e, a, n) = None.
Proof.
  induction l as [|i l IH]; simpl; intros H; [reflexivity|].
  rewrite (H i (or_introl eq_refl)). apply IH. intros i' Hi. apply H. now right.
Qed.

Lemma info_has_listed e a n l :
  info_has e a n l = match listed l (e, a, n) with Some _ => true | None => false end.
Proof.
  induction l as [|i l IH]; simpl; [reflexivity|].
  destruct (same_ea e a i); simpl; [|exact IH].
  rewrite sup_find_has. destruct (sup_find n (i_sups i)); simpl; [reflexivity | exact IH].
Qed.

(* add *)
Lemma sup_find_add n u l :
  sup_find n (sup_add u l) = if N.eqb n (s_name u) then Some u else sup_find n l.
Proof.
  induction l as [|x l IH]; simpl.
  - unfold named. rewrite (N.eqb_sym (s_name u) n). destruct (N.eqb n (s_name u)); reflexivity.
  - destruct (named (s_name u) x) eqn:Ex; simpl.
    + apply named_true in Ex. unfold named. rewrite Ex, (N.eqb_sym (s_name u) n).
      destruct (N.eqb n (s_name u)); reflexivity.
    + rewrite IH. destruct (named n x) eqn:En; [|reflexivity].
      apply named_true in En. destruct (N.eqb_spec n (s_name u)) as [->|_]; [|reflexivity].
      unfold named in Ex. rewrite En, N.eqb_refl in Ex. discriminate.
Qed.

Lemma listed_add e a u l k :
  listed (info_add e a u l) k = if key_eqb k (e, a, s_name u) then Some u else listed l k.
Proof.
  destruct k as [[e' a'] n'].
  induction l as [|i l IH]; simpl.
  - unfold same_ea, key_eqb, named. simpl.
    rewrite (N.eqb_sym e e'), (N.eqb_sym a a'), (N.eqb_sym (s_name u) n').
    destruct (N.eqb e' e), (N.eqb a' a), (N.eqb n' (s_name u)); reflexivity.
  - destruct (same_ea e a i) eqn:Ei; simpl.
    + rewrite same_ea_rebuild. simpl. destruct (same_ea e' a' i) eqn:Ei'.
      * destruct (same_ea_fields _ _ _ Ei) as [He Ha]. destruct (same_ea_fields _ _ _ Ei') as [He' Ha'].
        assert (He2 : e' = e) by congruence. assert (Ha2 : a' = a) by congruence. clear He' Ha'. subst e' a'.
        rewrite key_eqb_same_ea, sup_find_add. destruct (N.eqb n' (s_name u)); reflexivity.
      * rewrite (key_neq_ea _ _ _ _ _ _ _ Ei Ei'). reflexivity.
    + rewrite IH. destruct (key_eqb (e', a', n') (e, a, s_name u)) eqn:Ek; [|reflexivity].
      apply key_eqb_eq in Ek. inversion Ek; subst. rewrite Ei. reflexivity.
Qed.

(* set availability *)
Lemma sup_find_set n av n' l :
  sup_find n' (sup_set n av l) =
  if N.eqb n' n then option_map (fun s => with_avail s av) (sup_find n' l) else sup_find n' l.
Proof.
  induction l as [|x l IH]; simpl; [destruct (N.eqb n' n); reflexivity|].
  destruct (named n x) eqn:Ex; simpl.
  - apply named_true in Ex. unfold named. simpl. rewrite Ex, (N.eqb_sym n n').
    destruct (N.eqb n' n); reflexivity.
  - rewrite IH. destruct (named n' x) eqn:En; [|reflexivity].
    apply named_true in En. destruct (N.eqb_spec n' n) as [->|_]; [|reflexivity].
    unfold named in Ex. rewrite En, N.eqb_refl in Ex. discriminate.
Qed.

Lemma listed_set e a n av l k :
  listed (info_set e a n av l) k =
  if key_eqb k (e, a, n) then option_map (fun s => with_avail s av) (listed l k) else listed l k.
Proof.
  destruct k as [[e' a'] n'].
  induction l as [|i l IH]; simpl; [destruct (key_eqb (e', a', n') (e, a, n)); reflexivity|].
  destruct (same_ea e a i && has_name n (i_sups i)) eqn:Ei; simpl.
  - apply andb_true_iff in Ei. destruct Ei as [Ei Hn].
    rewrite same_ea_rebuild. simpl. destruct (same_ea e' a' i) eqn:Ei'.
    + destruct (same_ea_fields _ _ _ Ei) as [He Ha]. destruct (same_ea_fields _ _ _ Ei') as [He' Ha'].
      assert (He2 : e' = e) by congruence. assert (Ha2 : a' = a) by congruence. clear He' Ha'. subst e' a'.
      rewrite key_eqb_same_ea, sup_find_set.
      destruct (N.eqb_spec n' n) as [->|Hne]; [|reflexivity].
      rewrite sup_find_has in Hn. destruct (sup_find n (i_sups i)); [reflexivity | discriminate].
    + rewrite (key_neq_ea _ _ _ _ _ _ _ Ei Ei'). reflexivity.
  - rewrite IH. destruct (same_ea e' a' i) eqn:Ei'; [|reflexivity].
    destruct (sup_find n' (i_sups i)) as [s|] eqn:Es; [|reflexivity].
    destruct (key_eqb (e', a', n') (e, a, n)) eqn:Ek; [|reflexivity].
    apply key_eqb_eq in Ek. inversion Ek; subst.
    rewrite Ei', sup_find_has, Es in Ei. discriminate.
Qed.

(* remove all of an entity *)
Lemma listed_remove_all e l k :
  listed (info_remove_all e l) k = if N.eqb (key_ent k) e then None else listed l k.
Proof.
  destruct k as [[e' a'] n']. unfold key_ent. simpl.
  induction l as [|i l IH]; simpl; [destruct (N.eqb e' e); reflexivity|].
  destruct (N.eqb_spec (i_ent i) e) as [He|He]; simpl.
  - rewrite IH. destruct (same_ea e' a' i) eqn:Ei; [|reflexivity].
    apply same_ea_true in Ei. unfold ea in Ei. inversion Ei; subst. rewrite N.eqb_refl. reflexivity.
  - rewrite IH. destruct (same_ea e' a' i) eqn:Ei; [|reflexivity].
    apply same_ea_true in Ei. unfold ea in Ei. inversion Ei; subst.
    destruct (N.eqb_spec (i_ent i) e); [congruence | reflexivity].
Qed.

(* remove one support: needs one entry per (entity, actor) *)
Lemma sup_find_filter n n' l :
  sup_find n' (filter (fun x => negb (named n x)) l) = if N.eqb n' n then None else sup_find n' l.
Proof.
  induction l as [|x l IH]; simpl; [destruct (N.eqb n' n); reflexivity|].
  destruct (named n x) eqn:Ex; simpl.
  - rewrite IH. apply named_true in Ex. unfold named. rewrite Ex.
    destruct (N.eqb_spec n n') as [->|Hne]; [rewrite N.eqb_refl; reflexivity|].
    destruct (N.eqb_spec n' n); [congruence | reflexivity].
  - rewrite IH. destruct (named n' x) eqn:En; [|reflexivity].
    apply named_true in En. destruct (N.eqb_spec n' n) as [->|_]; [|reflexivity].
    unfold named in Ex. rewrite En, N.eqb_refl in Ex. discriminate.
Qed.

Lemma listed_remove e a n l k :
  NoDup (map ea l) ->
  listed (info_remove e a n l) k = if key_eqb k (e, a, n) then None else listed l k.
Proof.
  destruct k as [[e' a'] n'].
  induction l as [|i l IH]; simpl; intros Hnd; [destruct (key_eqb (e', a', n') (e, a, n)); reflexivity|].
  inversion Hnd as [|x xs Hnotin Hnd']; subst.
  destruct (same_ea e a i && has_name n (i_sups i)) eqn:Ei; simpl.
  - apply andb_true_iff in Ei. destruct Ei as [Ei Hn].
    assert (Hrest : forall n0, listed l (e, a, n0) = None).
    { intros n0. apply listed_none. intros i' Hi'.
      destruct (same_ea e a i') eqn:E'; [|reflexivity].
      apply same_ea_true in E'. apply same_ea_true in Ei. exfalso. apply Hnotin. rewrite Ei, <- E'. apply in_map. exact Hi'. }
    pose proof (sup_find_filter n n' (i_sups i)) as Hf.
    destruct (same_ea e' a' i) eqn:Ei'.
    + destruct (same_ea_fields _ _ _ Ei) as [He Ha]. destruct (same_ea_fields _ _ _ Ei') as [He' Ha'].
      assert (He2 : e' = e) by congruence. assert (Ha2 : a' = a) by congruence. clear He' Ha'. subst e' a'.
      rewrite key_eqb_same_ea.
      destruct (filter (fun x => negb (named n x)) (i_sups i)) as [|s0 ss] eqn:Efl.
      * simpl in Hf. rewrite Hrest. destruct (N.eqb n' n); [reflexivity|]. rewrite <- Hf. reflexivity.
      * cbn [listed]. rewrite same_ea_rebuild, Ei'. cbn [i_sups]. rewrite Hf.
        destruct (N.eqb n' n); [apply Hrest | reflexivity].
    + rewrite (key_neq_ea _ _ _ _ _ _ _ Ei Ei').
      destruct (filter (fun x => negb (named n x)) (i_sups i)) as [|s0 ss]; [reflexivity|].
      cbn [listed]. rewrite same_ea_rebuild, Ei'. reflexivity.
  - rewrite (IH Hnd'). destruct (same_ea e' a' i) eqn:Ei'; [|reflexivity].
    destruct (sup_find n' (i_sups i)) as [s|] eqn:Es; [|reflexivity].
    destruct (key_eqb (e', a', n') (e, a, n)) eqn:Ek; [|reflexivity].
    apply key_eqb_eq in Ek. inversion Ek; subst.
    rewrite Ei', sup_find_has, Es in Ei. discriminate.
Qed.

(* ---------- well-formedness: one entry per (entity, actor), one support per name ---------- *)

Definition WF (l : list info) : Prop :=
  NoDup (map ea l) /\ Forall (fun i => NoDup (map s_name (i_sups i))) l.

Lemma sup_add_names u l x : In x (map s_name (sup_add u l)) -> x = s_name u \/ In x (map s_name l).
Proof.
  induction l as [|y l IH]; simpl.
  - intros [H|[]]. now left.
  - destruct (named (s_name u) y) eqn:E; simpl.
    + intros [H|H]; [now left | right; now right].
    + intros [H|H]; [right; now left|]. destruct (IH H); [now left | right; now right].
Qed.

Lemma sup_add_nodup u l : NoDup (map s_name l) -> NoDup (map s_name (sup_add u l)).
Proof.
  induction l as [|y l IH]; simpl; intros H.
  - constructor; [tauto | constructor].
  - inversion H as [|a b Hn Hd]; subst.
    destruct (named (s_name u) y) eqn:E; simpl.
    + apply named_true in E. constructor; [rewrite <- E; exact Hn | exact Hd].
    + constructor; [|exact (IH Hd)].
      intros Hin. apply sup_add_names in Hin. destruct Hin as [Heq|Hin]; [|exact (Hn Hin)].
      unfold named in E. rewrite Heq, N.eqb_refl in E. discriminate.
Qed.

Lemma map_filter_nodup {A B} (f : A -> B) p (l : list A) : NoDup (map f l) -> NoDup (map f (filter p l)).
Proof.
  induction l as [|x l IH]; simpl; intros H; [constructor|].
  inversion H as [|a b Hn Hd]; subst.
  destruct (p x); simpl; [|exact (IH Hd)].
  constructor; [|exact (IH Hd)].
  intros Hin. apply Hn. apply in_map_iff in Hin. destruct Hin as [y [Hy Hin]].
  apply filter_In in Hin. rewrite <- Hy. apply in_map. tauto.
Qed.

Lemma sup_set_names n av l : map s_name (sup_set n av l) = map s_name l.
Proof.
  induction l as [|y l IH]; simpl; [reflexivity|].
  destruct (named n y); simpl; [reflexivity | rewrite IH; reflexivity].
Qed.

Lemma info_add_eas e a u l x : In x (map ea (info_add e a u l)) -> x = (e, a) \/ In x (map ea l).
Proof.
  induction l as [|i l IH]; simpl.
  - intros [H|[]]. left. symmetry. exact H.
  - destruct (same_ea e a i) eqn:E; simpl.
    + intros [H|H]; [right; left; exact H | right; now right].
    + intros [H|H]; [right; now left|]. destruct (IH H); [now left | right; now right].
Qed.

Lemma WF_add e a u l : WF l -> WF (info_add e a u l).
Proof.
  intros [H1 H2]. induction l as [|i l IH]; simpl.
  - split; [constructor; [tauto | constructor]|].
    constructor; [|constructor]. simpl. constructor; [tauto | constructor].
  - inversion H1 as [|x xs Hn Hd]; subst. inversion H2 as [|y ys Hy Hys]; subst.
    destruct (same_ea e a i) eqn:E; simpl.
    + split; [constructor; assumption|].
      constructor; [simpl; apply sup_add_nodup; exact Hy | exact Hys].
    + destruct (IH Hd Hys) as [I1 I2]. split.
      * constructor; [|exact I1]. intros Hin. apply info_add_eas in Hin.
        destruct Hin as [Heq|Hin]; [|exact (Hn Hin)].
        apply same_ea_true in Heq. congruence.
      * constructor; assumption.
Qed.

Lemma info_remove_eas e a n l x : In x (map ea (info_remove e a n l)) -> In x (map ea l).
Proof.
  induction l as [|i l IH]; simpl; [tauto|].
  destruct (same_ea e a i && has_name n (i_sups i)); simpl.
  - destruct (filter (fun x0 => negb (named n x0)) (i_sups i)); simpl; [now right|].
    intros [H|H]; [now left | now right].
  - intros [H|H]; [now left | right; exact (IH H)].
Qed.

Lemma WF_remove e a n l : WF l -> WF (info_remove e a n l).
Proof.
  intros [H1 H2]. induction l as [|i l IH]; simpl; [split; constructor|].
  inversion H1 as [|x xs Hn Hd]; subst. inversion H2 as [|y ys Hy Hys]; subst.
  destruct (same_ea e a i && has_name n (i_sups i)); simpl.
  - pose proof (map_filter_nodup s_name (fun x0 => negb (named n x0)) (i_sups i) Hy) as Hf.
    destruct (filter (fun x0 => negb (named n x0)) (i_sups i)) as [|s0 ss]; [split; assumption|].
    split; [constructor; assumption | constructor; [exact Hf | exact Hys]].
  - destruct (IH Hd Hys) as [I1 I2]. split.
    + constructor; [|exact I1]. intros Hin. apply Hn. exact (info_remove_eas _ _ _ _ _ Hin).
    + constructor; assumption.
Qed.

Lemma info_set_eas e a n av l : map ea (info_set e a n av l) = map ea l.
Proof.
  induction l as [|i l IH]; simpl; [reflexivity|].
  destruct (same_ea e a i && has_name n (i_sups i)); simpl; [reflexivity | rewrite IH; reflexivity].
Qed.

Lemma WF_set e a n av l : WF l -> WF (info_set e a n av l).
Proof.
  intros [H1 H2]. split; [rewrite info_set_eas; exact H1|].
  clear H1. induction l as [|i l IH]; simpl; [constructor|].
  inversion H2 as [|y ys Hy Hys]; subst.
  destruct (same_ea e a i && has_name n (i_sups i)); simpl.
  - constructor; [simpl; rewrite sup_set_names; exact Hy | exact Hys].
  - constructor; [exact Hy | exact (IH Hys)].
Qed.

Lemma WF_remove_all e l : WF l -> WF (info_remove_all e l).
Proof.
  intros [H1 H2]. split.
  - apply map_filter_nodup. exact H1.
  - apply Forall_forall. intros i Hi. apply filter_In in Hi.
    rewrite Forall_forall in H2. apply H2. tauto.
Qed.

Lemma WF_apply l u : WF l -> WF (apply_list l u).
Proof.
  destruct u; simpl; [apply WF_add | apply WF_remove | apply WF_set | apply WF_remove_all | apply WF_remove_all].
Qed.

Lemma sup_find_in l s : NoDup (map s_name l) -> In s l -> sup_find (s_name s) l = Some s.
Proof.
  induction l as [|x l IH]; simpl; intros Hnd Hin; [tauto|].
  inversion Hnd as [|a b Hn Hd]; subst.
  destruct Hin as [->|Hin].
  - unfold named. rewrite N.eqb_refl. reflexivity.
  - destruct (named (s_name s) x) eqn:E; [|exact (IH Hd Hin)].
    apply named_true in E. exfalso. apply Hn. rewrite E. apply in_map. exact Hin.
Qed.

Lemma listed_in l i s : WF l -> In i l -> In s (i_sups i) -> listed l (i_ent i, i_actor i, s_name s) = Some s.
Proof.
  intros [H1 H2]. induction l as [|j l IH]; simpl; intros Hi Hs; [tauto|].
  inversion H1 as [|x xs Hn Hd]; subst. inversion H2 as [|y ys Hy Hys]; subst.
  destruct Hi as [->|Hi].
  - unfold same_ea. rewrite !N.eqb_refl. simpl. rewrite (sup_find_in _ _ Hy Hs). reflexivity.
  - destruct (same_ea (i_ent i) (i_actor i) j) eqn:E.
    + apply same_ea_true in E. exfalso. apply Hn. rewrite E. change (i_ent i, i_actor i) with (ea i).
      apply in_map. exact Hi.
    + exact (IH Hd Hys Hi Hs).
Qed.

(* the list agrees with the map pointwise and is well-formed  ==>  it denotes the map *)
Lemma denotes_ok l r : WF l -> (forall k, listed l k = reg_lookup k r) -> denotes l r = true.
Proof.
  intros Hwf Hag. unfold denotes. apply andb_true_iff. split.
  - apply forallb_forall. intros i Hi. apply forallb_forall. intros s Hs.
    rewrite <- Hag, (listed_in l i s Hwf Hi Hs). apply osup_eqb_refl.
  - apply forallb_forall. intros [k v] _. simpl. rewrite Hag. apply osup_eqb_refl.
Qed.

(* the effect of an operation on what is listed = its effect on the map *)
Lemma listed_apply l r u k :
  WF l -> (forall k, listed l k = reg_lookup k r) ->
  listed (apply_list l u) k = reg_lookup k (spec_apply r u).
Proof.
  intros [Hnd _] Hag. rewrite spec_apply_lookup.
  destruct u as [e a s|e a n|e a n av|e|e]; simpl.
  - rewrite listed_add, Hag. reflexivity.
  - rewrite (listed_remove _ _ _ _ _ Hnd), Hag. reflexivity.
  - rewrite listed_set, Hag. reflexivity.
  - rewrite listed_remove_all, Hag. reflexivity.
  - rewrite listed_remove_all, Hag. reflexivity.
Qed.

(* ---------- isolation: the entries of other entities are left alone ---------- *)

Lemma others_add e a u l : others e (info_add e a u l) = others e l.
Proof.
  unfold others. induction l as [|i l IH]; simpl.
  - rewrite N.eqb_refl. reflexivity.
  - destruct (same_ea e a i) eqn:E; simpl.
    + apply same_ea_true in E. unfold ea in E. inversion E as [[He Ha]]. rewrite He, N.eqb_refl. reflexivity.
    + rewrite IH. reflexivity.
Qed.

Lemma others_remove e a n l : others e (info_remove e a n l) = others e l.
Proof.
  unfold others. induction l as [|i l IH]; simpl; [reflexivity|].
  destruct (same_ea e a i && has_name n (i_sups i)) eqn:E; simpl.
  - apply andb_true_iff in E. destruct E as [E _].
    apply same_ea_true in E. unfold ea in E. inversion E as [[He Ha]]. rewrite He, N.eqb_refl. simpl.
    destruct (filter (fun x => negb (named n x)) (i_sups i)); simpl; [reflexivity|].
    rewrite ?He, N.eqb_refl. reflexivity.
  - rewrite IH. reflexivity.
Qed.

Lemma others_set e a n av l : others e (info_set e a n av l) = others e l.
Proof.
  unfold others. induction l as [|i l IH]; simpl; [reflexivity|].
  destruct (same_ea e a i && has_name n (i_sups i)) eqn:E; simpl.
  - apply andb_true_iff in E. destruct E as [E _].
    apply same_ea_true in E. unfold ea in E. inversion E as [[He Ha]]. rewrite He, N.eqb_refl. reflexivity.
  - rewrite IH. reflexivity.
Qed.

Lemma others_remove_all e l : others e (info_remove_all e l) = others e l.
Proof.
  unfold others, info_remove_all. induction l as [|i l IH]; simpl; [reflexivity|].
  destruct (N.eqb (i_ent i) e) eqn:E; simpl; [exact IH|]. rewrite E. simpl. rewrite IH. reflexivity.
Qed.

Lemma others_apply l u : others (ent_of u) (apply_list l u) = others (ent_of u) l.
Proof.
  destruct u; simpl;
    [apply others_add | apply others_remove | apply others_set | apply others_remove_all | apply others_remove_all].
Qed.

Lemma others_comm e e' l : others e (others e' l) = others e' (others e l).
Proof.
  unfold others. induction l as [|i l IH]; simpl; [reflexivity|].
  destruct (N.eqb (i_ent i) e') eqn:E1, (N.eqb (i_ent i) e) eqn:E2; simpl; rewrite ?E1, ?E2; simpl; rewrite IH; reflexivity.
Qed.

Lemma listed_others e l k : key_ent k <> e -> listed (others e l) k = listed l k.
Proof.
  destruct k as [[e' a'] n']. unfold key_ent. simpl. intros Hne.
  unfold others. induction l as [|i l IH]; simpl; [reflexivity|].
  destruct (N.eqb_spec (i_ent i) e) as [He|He]; simpl.
  - rewrite IH. destruct (same_ea e' a' i) eqn:E; [|reflexivity].
    apply same_ea_true in E. unfold ea in E. inversion E. congruence.
  - rewrite IH. reflexivity.
Qed.

Theorem apply_isolated d u k :
  key_ent k <> ent_of u -> listed (data_list (apply_uop d u)) k = listed (data_list d) k.
Proof.
  intros Hne. rewrite data_list_apply.
  rewrite <- (listed_others (ent_of u) (apply_list (data_list d) u) k Hne).
  rewrite others_apply. apply listed_others. exact Hne.
Qed.

(* ---------- render / parse round trip ---------- *)

Lemma parse_dump_sups ss rest :
  parse_dump (map RSup ss ++ rest) =
  match parse_dump rest with Some (ss', l) => Some (ss ++ ss', l) | None => None end.
Proof.
  induction ss as [|s ss IH]; simpl; [destruct (parse_dump rest) as [[? ?]|]; reflexivity|].
  rewrite IH. destruct (parse_dump rest) as [[? ?]|]; reflexivity.
Qed.

Lemma parse_dump_render l :
  parse_dump (flat_map (fun i => RInfo (i_ent i) (i_actor i) :: map RSup (i_sups i)) l ++ [REnd]) = Some ([], l).
Proof.
  induction l as [|i l IH]; simpl; [reflexivity|].
  rewrite <- app_assoc, parse_dump_sups, IH, app_nil_r. destruct i; reflexivity.
Qed.

Lemma parse_list_render d : parse_list (render d) = Some (data_list d).
Proof. unfold parse_list, render. rewrite parse_dump_render. reflexivity. Qed.

Lemma split_acq_render d : split_acq (render d) = (None, render d).
Proof. unfold render. destruct (data_list d) as [|i l]; reflexivity. Qed.

(* ---------- the invariant ---------- *)

Definition thread_op (s : st) (t : N) : option uop :=
  match hold s with
  | Some (t', u, _) => if N.eqb t t' then Some u else assoc_N t (wait s)
  | None => assoc_N t (wait s)
  end.

Record Inv (s : st) (m : mst) : Prop := {
  inv_wf : WF (data_list (store s));
  inv_agree : forall k, listed (data_list (store s)) k = reg_lookup k (m_reg m);
  inv_last : m_last m = data_list (store s);
  inv_snap : forall t u d, hold s = Some (t, u, d) -> d = store s /\ assoc_N t (wait s) = None;
  inv_wait : NoDup (map fst (wait s));
  inv_pend : forall t, assoc_N t (m_pend m) = thread_op s t
}.

Lemma inv_init : Inv init minit.
Proof.
  constructor; simpl; try reflexivity.
  - split; constructor.
  - discriminate.
  - constructor.
Qed.

Lemma active_thread_op s t :
  (forall t' u d, hold s = Some (t', u, d) -> assoc_N t' (wait s) = None) ->
  active t s = match thread_op s t with Some _ => true | None => false end.
Proof.
  intros _. unfold active, is_holder, thread_op.
  destruct (hold s) as [[[t' u] d]|]; simpl; [|reflexivity].
  destruct (N.eqb t t'); reflexivity.
Qed.

Lemma step_inv s m o :
  Inv s m ->
  let '(s1, out) := step s o in
  let '(m1, v) := mon m o out in
  v = [] /\ Inv s1 m1.
Proof.
  intros I. destruct o as [t u|t|e a n| |u1 u2]; simpl.
  - (* Begin *)
    rewrite (active_thread_op s t) by (intros t' u' d' H; exact (proj2 (inv_snap _ _ I _ _ _ H))).
    rewrite (inv_pend _ _ I t).
    destruct (thread_op s t) as [u0|] eqn:Et; simpl.
    + split; [reflexivity | exact I].
    + unfold thread_op in Et.
      destruct (hold s) as [[[t' u'] d']|] eqn:Eh; simpl.
      * (* blocked *)
        destruct (N.eqb_spec t t') as [->|Hne]; [discriminate|].
        split; [reflexivity|].
        destruct I as [I1 I2 I3 I4 I5 I6]. constructor; simpl; auto.
        -- intros t0 u0 d0 H. inversion H; subst.
           destruct (I4 _ _ _ Eh) as [Hd Hw]. split; [exact Hd|].
           rewrite assoc_N_app, Hw. simpl. destruct (N.eqb_spec t0 t); [congruence | reflexivity].
        -- rewrite map_app. simpl. apply NoDup_snoc; [exact I5|].
           apply assoc_N_none_notin. exact Et.
        -- intros t0. unfold thread_op. simpl. specialize (I6 t0). unfold thread_op in I6. rewrite Eh in I6.
           rewrite assoc_N_app.
           destruct (N.eqb_spec t0 t) as [->|Hne0].
           ++ destruct (N.eqb_spec t t'); [congruence|]. rewrite Et. simpl. rewrite N.eqb_refl. reflexivity.
           ++ rewrite I6. destruct (N.eqb t0 t'); [reflexivity|].
              destruct (assoc_N t0 (wait s)); [reflexivity|]. simpl.
              destruct (N.eqb_spec t0 t); [congruence | reflexivity].
      * (* parked *)
        split; [reflexivity|].
        destruct I as [I1 I2 I3 I4 I5 I6]. constructor; simpl; auto.
        -- intros t0 u0 d0 H. inversion H; subst. split; [reflexivity | exact Et].
        -- intros t0. unfold thread_op. simpl. specialize (I6 t0). unfold thread_op in I6. rewrite Eh in I6.
           rewrite I6. reflexivity.
  - (* End *)
    destruct (hold s) as [[[t' u] snap]|] eqn:Eh; [|split; [reflexivity | exact I]].
    destruct (N.eqb_spec t t') as [->|Hne]; [|split; [reflexivity | exact I]].
    destruct (inv_snap _ _ I _ _ _ Eh) as [Hsnap Hnw]. subst snap.
    assert (Hp : assoc_N t' (m_pend m) = Some u).
    { rewrite (inv_pend _ _ I t'). unfold thread_op. rewrite Eh, N.eqb_refl. reflexivity. }
    assert (Hwf : WF (data_list (apply_uop (store s) u))).
    { rewrite data_list_apply. apply WF_apply. exact (inv_wf _ _ I). }
    assert (Hag : forall k, listed (data_list (apply_uop (store s) u)) k = reg_lookup k (spec_apply (m_reg m) u)).
    { intros k. rewrite data_list_apply. apply listed_apply; [exact (inv_wf _ _ I) | exact (inv_agree _ _ I)]. }
    assert (Hiso : eqb_infos (others (ent_of u) (data_list (apply_uop (store s) u))) (others (ent_of u) (m_last m)) = true).
    { rewrite (inv_last _ _ I), data_list_apply, others_apply. apply eqb_infos_refl. }
    destruct (wait s) as [|[t2 u2] w] eqn:Ew; simpl.
    + rewrite Hp, split_acq_render. rewrite parse_list_render, (denotes_ok _ _ Hwf Hag), Hiso. simpl.
      split; [reflexivity|].
      destruct I as [I1 I2 I3 I4 I5 I6]. constructor; simpl; auto.
      * discriminate.
      * constructor.
      * intros t0. rewrite assoc_N_remove. unfold thread_op. simpl.
        specialize (I6 t0). unfold thread_op in I6. rewrite Eh, Ew in I6. simpl in I6.
        destruct (N.eqb t0 t'); [reflexivity | exact I6].
    + rewrite Hp.
      assert (Hne2 : t2 <> t').
      { intros ->. simpl in Hnw. rewrite N.eqb_refl in Hnw. discriminate. }
      assert (Hp2 : assoc_N t2 (remove_N t' (m_pend m)) = Some u2).
      { rewrite assoc_N_remove. destruct (N.eqb_spec t2 t'); [congruence|].
        rewrite (inv_pend _ _ I t2). unfold thread_op. rewrite Eh, Ew.
        destruct (N.eqb_spec t2 t'); [congruence|]. simpl. rewrite N.eqb_refl. reflexivity. }
      cbn [split_acq]. rewrite Hp2. rewrite parse_list_render, (denotes_ok _ _ Hwf Hag), Hiso. simpl.
      split; [reflexivity|].
      destruct I as [I1 I2 I3 I4 I5 I6]. rewrite Ew in I5. simpl in I5.
      inversion I5 as [|x xs Hn2 Hd2]; subst.
      constructor; simpl; auto.
      * intros t0 u0 d0 H. inversion H; subst. split; [reflexivity|]. apply assoc_N_notin. exact Hn2.
      * intros t0. rewrite assoc_N_remove. unfold thread_op. simpl.
        specialize (I6 t0). unfold thread_op in I6. rewrite Eh, Ew in I6. simpl in I6.
        destruct (N.eqb_spec t0 t') as [->|Hne0].
        -- destruct (N.eqb_spec t' t2); [congruence|]. simpl in Hnw.
           destruct (N.eqb_spec t' t2); [congruence|]. symmetry. exact Hnw.
        -- exact I6.
  - (* Has *)
    rewrite info_has_listed, (inv_agree _ _ I). rewrite eqb_reflx. split; [reflexivity | exact I].
  - (* Read *)
    rewrite parse_list_render, (denotes_ok _ _ (inv_wf _ _ I) (inv_agree _ _ I)). split; [reflexivity | exact I].
  - (* Par2 *)
    destruct (hold s) as [[[t' u] snap]|] eqn:Eh; [split; [reflexivity | exact I]|].
    set (d := apply_uop (apply_uop (store s) u1) u2).
    assert (Hwf : WF (data_list d)).
    { unfold d. rewrite !data_list_apply. apply WF_apply, WF_apply. exact (inv_wf _ _ I). }
    assert (Hag : forall k, listed (data_list d) k = reg_lookup k (spec_apply (spec_apply (m_reg m) u1) u2)).
    { intros k. unfold d. rewrite data_list_apply. apply listed_apply.
      - rewrite data_list_apply. apply WF_apply. exact (inv_wf _ _ I).
      - intros k0. rewrite data_list_apply. apply listed_apply; [exact (inv_wf _ _ I) | exact (inv_agree _ _ I)]. }
    assert (Hiso : eqb_infos (others (ent_of u2) (others (ent_of u1) (data_list d)))
                             (others (ent_of u2) (others (ent_of u1) (m_last m))) = true).
    { rewrite (inv_last _ _ I). unfold d. rewrite !data_list_apply.
      rewrite (others_comm (ent_of u2) (ent_of u1) (apply_list (apply_list (data_list (store s)) u1) u2)).
      rewrite others_apply.
      rewrite (others_comm (ent_of u1) (ent_of u2) (apply_list (data_list (store s)) u1)).
      rewrite others_apply. apply eqb_infos_refl. }
    simpl. rewrite parse_list_render, (denotes_ok _ _ Hwf Hag), Hiso. simpl.
    split; [reflexivity|].
    destruct I as [I1 I2 I3 I4 I5 I6]. constructor; simpl; auto.
    + discriminate.
    + intros t0. specialize (I6 t0). unfold thread_op in *. rewrite Eh in I6. simpl. exact I6.
Qed.

Theorem run_accepted_from s m sc ops :
  Inv s m -> accepted (judge m sc (snd (run s ops))) = true /\ Inv (fst (run s ops)) (mrun m (snd (run s ops))).
Proof.
  revert s m sc. induction ops as [|o ops IH]; intros s m sc I; [split; [reflexivity | exact I]|].
  simpl. pose proof (step_inv s m o I) as Hs.
  destruct (step s o) as [s1 out]. destruct (run s1 ops) as [s2 tr] eqn:Er. simpl.
  destruct (mon m o out) as [m1 v]. destruct Hs as [-> I1]. simpl.
  specialize (IH s1 m1 (scope sc o) I1). rewrite Er in IH. exact IH.
Qed.

Theorem run_accepted ops : accepted (judge minit sinit (snd (run init ops))) = true.
Proof. apply run_accepted_from. exact inv_init. Qed.

Theorem run_inv ops : Inv (fst (run init ops)) (mrun minit (snd (run init ops))).
Proof. apply (run_accepted_from init minit sinit ops inv_init). Qed.

(* ---------- explicit corollaries ---------- *)

(* the registry of the model is the specification map, for every history and schedule *)
Theorem registry_is_spec ops k :
  listed (data_list (store (fst (run init ops)))) k = reg_lookup k (m_reg (mrun minit (snd (run init ops)))).
Proof. apply (inv_agree _ _ (run_inv ops)). Qed.

Theorem has_iff_spec ops e a n :
  info_has e a n (data_list (store (fst (run init ops)))) = true <->
  reg_lookup (e, a, n) (m_reg (mrun minit (snd (run init ops)))) <> None.
Proof.
  rewrite info_has_listed, registry_is_spec.
  destruct (reg_lookup (e, a, n) (m_reg (mrun minit (snd (run init ops))))); split; intros H; congruence.
Qed.

(* the specification map is the sequential specification of the completed operations, in completion order *)
Definition seq_spec (log : list uop) : reg := fold_right (fun u r => spec_apply r u) [] log.

Lemma mon_log m o out : m_reg m = seq_spec (m_log m) -> m_reg (fst (mon m o out)) = seq_spec (m_log (fst (mon m o out))).
Proof.
  intros H. destruct o as [t u|t|e a n| |u1 u2]; simpl.
  - destruct (assoc_N t (m_pend m)); destruct out as [|[] [|? ?]]; simpl; exact H.
  - destruct out as [|ob rest]; [exact H|].
    destruct ob; try exact H.
    + destruct (assoc_N t (m_pend m)) as [u|]; [|exact H].
      destruct (split_acq rest) as [acq dump]. destruct (parse_list dump); simpl; rewrite H; reflexivity.
    + destruct rest; exact H.
  - destruct out as [|[] [|? ?]]; simpl; exact H.
  - destruct (parse_list out); exact H.
  - destruct out as [|ob rest]; [exact H|].
    destruct ob; try exact H.
    + destruct (parse_list rest); simpl; rewrite H; reflexivity.
    + destruct rest; exact H.
Qed.

Theorem spec_is_sequential tr : m_reg (mrun minit tr) = seq_spec (m_log (mrun minit tr)).
Proof.
  assert (G : forall m, m_reg m = seq_spec (m_log m) -> m_reg (mrun m tr) = seq_spec (m_log (mrun m tr))).
  { induction tr as [|[o out] tr IH]; intros m H; simpl; [exact H|]. apply IH. apply mon_log. exact H. }
  apply G. reflexivity.
Qed.

Theorem no_lost_update ops k :
  listed (data_list (store (fst (run init ops)))) k =
  reg_lookup k (seq_spec (m_log (mrun minit (snd (run init ops))))).
Proof. rewrite registry_is_spec, spec_is_sequential. reflexivity. Qed.

(* mutual exclusion: at most one snapshot is alive and it is the current data *)
Theorem snapshot_current ops t u d :
  hold (fst (run init ops)) = Some (t, u, d) -> d = store (fst (run init ops)).
Proof. intros H. exact (proj1 (inv_snap _ _ (run_inv ops) _ _ _ H)). Qed.

(* ---------- two operations left to run freely ---------- *)
(* Operations on different entities commute on the specification map and on what the data lists:
   whichever of the two cycles runs first, every key is listed with the same value.  So the
   composition in the order given stands for both serialisations of [Par2 u1 u2]. *)
Lemma spec_lookup_ent r u k : key_ent k <> ent_of u -> spec_lookup r u k = reg_lookup k r.
Proof.
  intros Hne. destruct k as [[e a] n]. unfold key_ent in Hne.
  destruct u as [e' a' s|e' a' n'|e' a' n' av|e'|e']; cbn in *; unfold key_eqb, key_ent; cbn;
    (destruct (N.eqb_spec e e') as [Heq|Hn]; [exfalso; apply Hne; exact Heq | reflexivity]).
Qed.

Lemma spec_lookup_ext_at r r' u k :
  reg_lookup k r = reg_lookup k r' -> spec_lookup r u k = spec_lookup r' u k.
Proof. intros H. destruct u; simpl; rewrite ?H; reflexivity. Qed.

Theorem spec_commutes r u1 u2 k :
  ent_of u1 <> ent_of u2 ->
  reg_lookup k (spec_apply (spec_apply r u1) u2) = reg_lookup k (spec_apply (spec_apply r u2) u1).
Proof.
  intros Hne. rewrite !spec_apply_lookup.
  destruct (N.eq_dec (key_ent k) (ent_of u2)) as [E2|N2].
  - (* k belongs to u2's entity: u1 does not see it *)
    assert (N1 : key_ent k <> ent_of u1) by congruence.
    rewrite (spec_lookup_ent (spec_apply r u2) u1 k N1), spec_apply_lookup.
    apply spec_lookup_ext_at. rewrite spec_apply_lookup. apply spec_lookup_ent. exact N1.
  - rewrite (spec_lookup_ent (spec_apply r u1) u2 k N2), spec_apply_lookup.
    symmetry. apply spec_lookup_ext_at. rewrite spec_apply_lookup. apply spec_lookup_ent. exact N2.
Qed.

Theorem par2_commutes l r0 u1 u2 k :
  WF l -> (forall k0, listed l k0 = reg_lookup k0 r0) -> ent_of u1 <> ent_of u2 ->
  listed (apply_list (apply_list l u1) u2) k = listed (apply_list (apply_list l u2) u1) k.
Proof.
  intros Hwf H0 Hne.
  rewrite (listed_apply (apply_list l u1) (spec_apply r0 u1) u2 k (WF_apply l u1 Hwf)
             (fun k0 => listed_apply l r0 u1 k0 Hwf H0)).
  rewrite (listed_apply (apply_list l u2) (spec_apply r0 u2) u1 k (WF_apply l u2 Hwf)
             (fun k0 => listed_apply l r0 u2 k0 Hwf H0)).
  apply spec_commutes. exact Hne.
Qed.

(* in every reachable state: both serialisations of two operations on different entities list the same *)
Theorem par2_commutes_reachable ops u1 u2 k :
  ent_of u1 <> ent_of u2 ->
  let l := data_list (store (fst (run init ops))) in
  listed (apply_list (apply_list l u1) u2) k = listed (apply_list (apply_list l u2) u1) k.
Proof.
  intros Hne l. pose proof (run_inv ops) as I.
  exact (par2_commutes l _ u1 u2 k (inv_wf _ _ I) (inv_agree _ _ I) Hne).
Qed.
