(* C18 — proofs about Model/JsonCodec.v: decoding the encoding of a well-typed value
   gives its normal form, for every type of a well-formed table; the normal form is
   equivalent to the value (absent = empty list); the TimePeriodType clause over an
   abstract clock. *)
From Coq Require Import String Ascii List ZArith NArith Bool Lia.
From Verif Require Import Model.JsonTy Model.JsonCodec.
Import ListNotations.
Local Open Scope string_scope.

(* ---- induction principle for the nested type of values ---- *)
Section ValueInd.
  Variable P : value -> Prop.
  Hypothesis HNil : P VNil.
  Hypothesis HBool : forall b, P (VBool b).
  Hypothesis HInt : forall z, P (VInt z).
  Hypothesis HStr : forall s, P (VStr s).
  Hypothesis HList : forall l, Forall P l -> P (VList l).
  Hypothesis HStruct : forall l, Forall P l -> P (VStruct l).

  Fixpoint value_ind' (v : value) : P v :=
    match v with
    | VNil => HNil
    | VBool b => HBool b
    | VInt z => HInt z
    | VStr s => HStr s
    | VList l =>
        HList l ((fix go (l : list value) : Forall P l :=
                    match l with
                    | [] => Forall_nil P
                    | x :: r => Forall_cons x (value_ind' x) (go r)
                    end) l)
    | VStruct l =>
        HStruct l ((fix go (l : list value) : Forall P l :=
                      match l with
                      | [] => Forall_nil P
                      | x :: r => Forall_cons x (value_ind' x) (go r)
                      end) l)
    end.
End ValueInd.

(* ---- association lists ---- *)
Lemma assoc_last_app {A} (k : string) (a b : list (string * A)) :
  assoc_last k (a ++ b) =
  match assoc_last k b with Some y => Some y | None => assoc_last k a end.
Proof.
  induction a as [|[k' x] a IH]; cbn [app assoc_last].
  - destruct (assoc_last k b); reflexivity.
  - rewrite IH. destruct (assoc_last k b); [reflexivity|].
    destruct (assoc_last k a); reflexivity.
Qed.

Lemma assoc_last_notin {A} (k : string) (l : list (string * A)) :
  ~ In k (map fst l) -> assoc_last k l = None.
Proof.
  induction l as [|[k' x] l IH]; cbn [map fst assoc_last In]; intros Hn; [reflexivity|].
  rewrite IH by tauto.
  destruct (String.eqb k k') eqn:E; [|reflexivity].
  apply String.eqb_eq in E. subst. tauto.
Qed.

Lemma nodup_str_NoDup l : nodup_str l = true -> NoDup l.
Proof.
  induction l as [|x l IH]; cbn [nodup_str]; intros H; [constructor|].
  apply andb_true_iff in H. destruct H as [Hx Hl].
  constructor; [|auto].
  intros Hin. apply negb_true_iff in Hx.
  assert (Ht : existsb (String.eqb x) l = true).
  { apply existsb_exists. exists x. split; [exact Hin | apply String.eqb_refl]. }
  congruence.
Qed.

Section Roundtrip.
  Variable tbl : list sdesc.
  Hypothesis Hwf : wf_tbl tbl = true.

  Notation fields_of := (fields_of tbl).
  Notation enc := (enc tbl).
  Notation dec := (dec tbl).
  Notation normt := (normt tbl).
  Notation has_kind := (has_kind tbl).
  Notation has_type := (has_type tbl).
  Notation zero := (zero tbl).

  Lemma fields_nodup id : NoDup (map f_json (fields_of id)).
  Proof.
    unfold JsonCodec.fields_of, sdesc_of.
    destruct (nth_error tbl (N.to_nat id)) as [s|] eqn:E; [|constructor].
    pose proof Hwf as Hs. unfold wf_tbl in Hs. rewrite forallb_forall in Hs.
    specialize (Hs s (nth_error_In _ _ E)). unfold wf_struct in Hs.
    apply andb_true_iff in Hs. destruct Hs as [Hs _].
    apply andb_true_iff in Hs. destruct Hs as [Hs _].
    apply andb_true_iff in Hs. destruct Hs as [Hs _].
    apply nodup_str_NoDup. exact Hs.
  Qed.

  (* top-level names for the local fixpoints of the model *)
  Fixpoint enc_fields (fs : list field) (vs : list value) {struct vs} : list (string * json) :=
    match vs, fs with
    | v' :: vs', f :: fs' =>
        if (f_omit f && is_empty (f_ty f) v')%bool then enc_fields fs' vs'
        else (f_json f, enc (f_ty f) v') :: enc_fields fs' vs'
    | _, _ => []
    end.

  Fixpoint dec_members (fs : list field) (ms : list (string * json)) : list (string * option value) :=
    match ms with
    | [] => []
    | (k, j') :: r =>
        match find_field fs k with
        | Some f => (f_json f, dec (f_ty f) j') :: dec_members fs r
        | None => dec_members fs r
        end
    end.

  Fixpoint norm_fields (fs : list field) (vs : list value) {struct vs} : list value :=
    match vs, fs with
    | v' :: vs', f :: fs' =>
        (if (f_omit f && is_empty (f_ty f) v')%bool then zero (f_ty f) else normt (f_ty f) v')
          :: norm_fields fs' vs'
    | _, _ => []
    end.

  Fixpoint typed_fields (fs : list field) (vs : list value) {struct vs} : bool :=
    match vs, fs with
    | [], [] => true
    | v' :: vs', f :: fs' => has_type (f_ty f) v' && typed_fields fs' vs'
    | _, _ => false
    end.

  Lemma enc_struct t id vs :
    kind_of t = KStruct id -> enc t (VStruct vs) = JObj (enc_fields (fields_of id) vs).
  Proof.
    intros Hk. cbn [JsonCodec.enc]. rewrite Hk. reflexivity.
  Qed.

  Lemma normt_struct t id vs :
    kind_of t = KStruct id -> normt t (VStruct vs) = VStruct (norm_fields (fields_of id) vs).
  Proof.
    intros Hk. cbn [JsonCodec.normt]. rewrite Hk. reflexivity.
  Qed.

  Lemma has_kind_struct id vs :
    has_kind (KStruct id) (VStruct vs) = typed_fields (fields_of id) vs.
  Proof.
    cbn [JsonCodec.has_kind].
    generalize (fields_of id) as fs. induction vs as [|v vs IH]; intros fs.
    - destruct fs; reflexivity.
    - destruct fs as [|f fs]; [reflexivity|]. cbn [typed_fields].
      etransitivity; [| apply f_equal; apply (IH fs)].
      unfold JsonCodec.has_type. destruct (f_ty f); reflexivity.
  Qed.

  Lemma dec_obj t id ms :
    (t = TVal (KStruct id) \/ t = TPtr (KStruct id)) ->
    dec t (JObj ms) = assemble tbl (fields_of id) (dec_members (fields_of id) ms).
  Proof.
    intros [-> | ->]; cbn [JsonCodec.dec kind_of]; f_equal;
      (induction ms as [|[k j] ms IH]; [reflexivity|];
       cbn [dec_members]; destruct (find_field (fields_of id) k); rewrite IH; reflexivity).
  Qed.

  Lemma find_exact (fs : list field) (f : field) :
    NoDup (map f_json fs) -> In f fs ->
    find (fun g => String.eqb (f_json g) (f_json f)) fs = Some f.
  Proof.
    induction fs as [|g fs IH]; cbn [map In find]; intros Hnd Hin; [tauto|].
    inversion Hnd as [|? ? Hnot Hnd']; subst.
    destruct Hin as [-> | Hin].
    - rewrite String.eqb_refl. reflexivity.
    - destruct (String.eqb (f_json g) (f_json f)) eqn:E.
      + apply String.eqb_eq in E. exfalso. apply Hnot. rewrite E. apply in_map. exact Hin.
      + apply IH; assumption.
  Qed.

  Lemma find_field_exact (fs : list field) (f : field) :
    NoDup (map f_json fs) -> In f fs -> find_field fs (f_json f) = Some f.
  Proof. intros Hnd Hin. unfold find_field. rewrite find_exact by assumption. reflexivity. Qed.

  (* the decoded members of an encoded struct, given the round trip for the parts *)
  Fixpoint dl_norm (fs : list field) (vs : list value) {struct vs} : list (string * option value) :=
    match vs, fs with
    | v' :: vs', f :: fs' =>
        if (f_omit f && is_empty (f_ty f) v')%bool then dl_norm fs' vs'
        else (f_json f, Some (normt (f_ty f) v')) :: dl_norm fs' vs'
    | _, _ => []
    end.

  Definition RT (v : value) : Prop :=
    forall t, has_type t v = true -> dec t (enc t v) = Some (normt t v).

  Lemma dec_members_enc (fs0 : list field) :
    NoDup (map f_json fs0) ->
    forall fs vs, incl fs fs0 -> Forall RT vs -> typed_fields fs vs = true ->
    dec_members fs0 (enc_fields fs vs) = dl_norm fs vs.
  Proof.
    intros Hnd fs vs. revert fs.
    induction vs as [|v vs IH]; intros fs Hincl Hrt Hty; [reflexivity|].
    destruct fs as [|f fs]; [discriminate|].
    cbn [typed_fields] in Hty. apply andb_true_iff in Hty. destruct Hty as [Hv Hty].
    inversion Hrt as [|? ? Hrv Hrt']; subst.
    assert (Hinc' : incl fs fs0) by (intros x Hx; apply Hincl; right; exact Hx).
    cbn [enc_fields dl_norm].
    destruct (f_omit f && is_empty (f_ty f) v)%bool.
    - apply IH; assumption.
    - cbn [dec_members]. rewrite find_field_exact by (auto; apply Hincl; left; reflexivity).
      rewrite (Hrv _ Hv). f_equal. apply IH; assumption.
  Qed.

  Lemma dl_norm_keys fs vs k : In k (map fst (dl_norm fs vs)) -> In k (map f_json fs).
  Proof.
    revert fs. induction vs as [|v vs IH]; intros fs; [cbn; tauto|].
    destruct fs as [|f fs]; [cbn; tauto|]. cbn [dl_norm].
    destruct (f_omit f && is_empty (f_ty f) v)%bool; cbn [map fst In]; intros H.
    - right. apply IH. exact H.
    - destruct H as [H|H]; [left; exact H | right; apply IH; exact H].
  Qed.

  Lemma dl_norm_not_failed fs vs : any_failed (dl_norm fs vs) = false.
  Proof.
    revert fs. induction vs as [|v vs IH]; intros fs; [reflexivity|].
    destruct fs as [|f fs]; [reflexivity|]. cbn [dl_norm].
    destruct (f_omit f && is_empty (f_ty f) v)%bool; [apply IH|].
    unfold any_failed in *. cbn [existsb snd]. apply IH.
  Qed.

  Definition sel (dl : list (string * option value)) (f : field) : value :=
    match assoc_last (f_json f) dl with Some (Some v) => v | _ => zero (f_ty f) end.

  Lemma sel_fields fs vs :
    NoDup (map f_json fs) -> length fs = length vs ->
    map (sel (dl_norm fs vs)) fs = norm_fields fs vs.
  Proof.
    revert fs. induction vs as [|v vs IH]; intros fs Hnd Hlen.
    - destruct fs; [reflexivity | discriminate].
    - destruct fs as [|f fs]; [discriminate|].
      cbn [map f_json] in Hnd. inversion Hnd as [|? ? Hnot Hnd']; subst.
      cbn [length] in Hlen. injection Hlen as Hlen.
      cbn [norm_fields map].
      set (hd := if (f_omit f && is_empty (f_ty f) v)%bool then []
                 else [(f_json f, Some (normt (f_ty f) v))]).
      assert (Hdl : dl_norm (f :: fs) (v :: vs) = (hd ++ dl_norm fs vs)%list).
      { cbn [dl_norm]. unfold hd. destruct (f_omit f && is_empty (f_ty f) v)%bool; reflexivity. }
      rewrite Hdl. f_equal.
      + unfold sel. rewrite assoc_last_app.
        rewrite (assoc_last_notin (f_json f) (dl_norm fs vs))
          by (intros Hk; apply Hnot; eapply dl_norm_keys; exact Hk).
        unfold hd. destruct (f_omit f && is_empty (f_ty f) v)%bool; cbn [assoc_last].
        * reflexivity.
        * rewrite String.eqb_refl. reflexivity.
      + rewrite <- (IH fs Hnd' Hlen). apply map_ext_in. intros g Hg.
        unfold sel. rewrite assoc_last_app.
        destruct (assoc_last (f_json g) (dl_norm fs vs)); [reflexivity|].
        assert (Hne : String.eqb (f_json g) (f_json f) = false).
        { apply String.eqb_neq. intros E. apply Hnot. rewrite <- E. apply in_map. exact Hg. }
        unfold hd. destruct (f_omit f && is_empty (f_ty f) v)%bool; cbn [assoc_last]; [reflexivity|].
        rewrite Hne. reflexivity.
  Qed.

  Lemma typed_fields_length fs vs : typed_fields fs vs = true -> length fs = length vs.
  Proof.
    revert fs. induction vs as [|v vs IH]; intros fs H; destruct fs as [|f fs]; try discriminate; [reflexivity|].
    cbn [typed_fields] in H. apply andb_true_iff in H. cbn [length]. f_equal. apply IH. tauto.
  Qed.

  Lemma rt_struct vs : Forall RT vs -> RT (VStruct vs).
  Proof.
    intros Hrt t Ht.
    assert (Hk : exists id, (t = TVal (KStruct id) \/ t = TPtr (KStruct id)) /\
                            typed_fields (fields_of id) vs = true).
    { destruct t as [k|k|k]; cbn [JsonCodec.has_type is_nil orb] in Ht; try discriminate;
        (destruct k as [| | |id|]; try discriminate);
        exists id; rewrite has_kind_struct in Ht; (split; [auto | exact Ht]). }
    destruct Hk as [id [Hshape Hty]].
    assert (Hkind : kind_of t = KStruct id) by (destruct Hshape as [-> | ->]; reflexivity).
    rewrite (enc_struct t id vs Hkind), (normt_struct t id vs Hkind), (dec_obj t id _ Hshape).
    rewrite (dec_members_enc (fields_of id) (fields_nodup id) (fields_of id) vs (incl_refl _) Hrt Hty).
    unfold assemble. rewrite dl_norm_not_failed.
    change (fun f : field => match assoc_last (f_json f) (dl_norm (fields_of id) vs) with
                             | Some (Some v) => v | _ => zero (f_ty f) end)
      with (sel (dl_norm (fields_of id) vs)).
    rewrite sel_fields; [reflexivity | apply fields_nodup | apply typed_fields_length; exact Hty].
  Qed.

  Lemma opt_all_map_some {A B} (f : A -> option B) (g : A -> B) (l : list A) :
    (forall x, In x l -> f x = Some (g x)) -> opt_all (map f l) = Some (map g l).
  Proof.
    induction l as [|x l IH]; intros H; [reflexivity|].
    cbn [map opt_all]. rewrite (H x (or_introl eq_refl)). rewrite IH; [reflexivity|].
    intros y Hy. apply H. right. exact Hy.
  Qed.

  Lemma rt_list l : Forall RT l -> RT (VList l).
  Proof.
    intros Hrt t Ht.
    destruct t as [k|k|k]; cbn [JsonCodec.has_type JsonCodec.has_kind is_nil orb] in Ht; try discriminate.
    cbn [JsonCodec.enc JsonCodec.dec JsonCodec.normt kind_of].
    rewrite map_map.
    rewrite (opt_all_map_some _ (normt (TVal k))); [reflexivity|].
    intros x Hx. rewrite Forall_forall in Hrt. apply (Hrt x Hx).
    rewrite forallb_forall in Ht. cbn [JsonCodec.has_type]. apply Ht. exact Hx.
  Qed.

  Theorem roundtrip : forall v t, has_type t v = true -> dec t (enc t v) = Some (normt t v).
  Proof.
    intros v. change (RT v). induction v using value_ind'.
    - intros t Ht. destruct t as [k|k|k]; cbn [JsonCodec.has_type JsonCodec.has_kind] in Ht;
        try discriminate; reflexivity.
    - intros t Ht. destruct t as [k|k|k]; cbn [JsonCodec.has_type JsonCodec.has_kind is_nil orb] in Ht;
        try discriminate; destruct k; try discriminate; reflexivity.
    - intros t Ht. destruct t as [k|k|k]; cbn [JsonCodec.has_type JsonCodec.has_kind is_nil orb] in Ht;
        try discriminate; destruct k; try discriminate;
        cbn [JsonCodec.enc JsonCodec.dec JsonCodec.normt kind_of]; rewrite Ht; reflexivity.
    - intros t Ht. destruct t as [k|k|k]; cbn [JsonCodec.has_type JsonCodec.has_kind is_nil orb] in Ht;
        try discriminate; destruct k; try discriminate; reflexivity.
    - apply rt_list. assumption.
    - apply rt_struct. assumption.
  Qed.
End Roundtrip.

(* ---- the normal form is equivalent to the value: absent = empty list ---- *)
Lemma value_eqb_refl v : value_eqb v v = true.
Proof.
  induction v using value_ind'; cbn [value_eqb];
    try reflexivity; try apply Bool.eqb_reflx; try apply Z.eqb_refl; try apply String.eqb_refl.
  - induction l as [|x l IHl]; [reflexivity|].
    inversion H as [|? ? Hx Hl]; subst. rewrite Hx. cbn [andb]. apply IHl. exact Hl.
  - induction l as [|x l IHl]; [reflexivity|].
    inversion H as [|? ? Hx Hl]; subst. rewrite Hx. cbn [andb]. apply IHl. exact Hl.
Qed.

Section NormEquiv.
  Variable tbl : list sdesc.
  Notation fields_of := (fields_of tbl).
  Notation normt := (normt tbl).
  Notation has_type := (has_type tbl).
  Notation zero := (zero tbl).

  Definition NE (v : value) : Prop := forall t, has_type t v = true -> norm (normt t v) = norm v.

  Lemma norm_list l : norm (VList l) = match l with [] => VNil | _ => VList (map norm l) end.
  Proof. destruct l; reflexivity. Qed.

  Lemma empty_zero t v : has_type t v = true -> is_empty t v = true -> norm (zero t) = norm v.
  Proof.
    destruct t as [k|k|k]; destruct v as [| b | z | s | l | l]; cbn [is_empty]; intros Ht He; try discriminate;
      try reflexivity.
    - destruct b; [discriminate|]. cbn in Ht. destruct k; try discriminate. reflexivity.
    - destruct z; try discriminate. cbn in Ht. destruct k; try discriminate. reflexivity.
    - destruct s; try discriminate. cbn in Ht. destruct k; try discriminate. reflexivity.
    - destruct l; [reflexivity | discriminate].
  Qed.

  Lemma ne_fields fs vs :
    Forall NE vs -> typed_fields tbl fs vs = true ->
    map norm (norm_fields tbl fs vs) = map norm vs.
  Proof.
    revert fs. induction vs as [|v vs IH]; intros fs Hne Hty; [reflexivity|].
    destruct fs as [|f fs]; [discriminate|].
    cbn [typed_fields] in Hty. apply andb_true_iff in Hty. destruct Hty as [Hv Hty].
    inversion Hne as [|? ? Hnv Hne']; subst.
    cbn [norm_fields map]. f_equal; [|apply IH; assumption].
    destruct (f_omit f && is_empty (f_ty f) v)%bool eqn:E.
    - apply andb_true_iff in E. destruct E as [_ E]. apply empty_zero; assumption.
    - apply Hnv. exact Hv.
  Qed.

  Theorem norm_normt : forall v t, has_type t v = true -> norm (normt t v) = norm v.
  Proof.
    intros v. change (NE v). induction v using value_ind'; try (intros t Ht; reflexivity).
    - (* list *)
      intros t Ht.
      destruct t as [k|k|k]; cbn [JsonCodec.has_type JsonCodec.has_kind is_nil orb] in Ht; try discriminate.
      cbn [JsonCodec.normt kind_of]. rewrite !norm_list.
      destruct l as [|x l]; [reflexivity|]. cbn [map]. f_equal.
      rewrite forallb_forall in Ht. rewrite Forall_forall in H.
      f_equal.
      + apply (H x (or_introl eq_refl)). cbn [JsonCodec.has_type]. apply Ht. left. reflexivity.
      + rewrite map_map. apply map_ext_in. intros y Hy.
        apply (H y (or_intror Hy)). cbn [JsonCodec.has_type]. apply Ht. right. exact Hy.
    - (* struct *)
      intros t Ht.
      assert (Hk : exists id, kind_of t = KStruct id /\ typed_fields tbl (fields_of id) l = true).
      { destruct t as [k|k|k]; cbn [JsonCodec.has_type is_nil orb] in Ht; try discriminate;
          (destruct k as [| | |id|]; try discriminate);
          exists id; rewrite has_kind_struct in Ht; (split; [reflexivity | exact Ht]). }
      destruct Hk as [id [Hkind Hty]].
      rewrite (normt_struct tbl t id l Hkind). cbn [norm]. f_equal.
      apply ne_fields; assumption.
  Qed.
End NormEquiv.

(* ---- the TimePeriodType clause over an abstract clock ---- *)
Local Open Scope Z_scope.

Lemma round_time_near x : Z.abs (round_time x - x) <= second / 2.
Proof.
  unfold round_time, second.
  pose proof (Z.div_mod (x + 1000000000 / 2) 1000000000 ltac:(lia)) as Hd.
  pose proof (Z.mod_pos_bound (x + 1000000000 / 2) 1000000000 ltac:(lia)) as Hb.
  change (1000000000 / 2) with 500000000 in *. lia.
Qed.

Lemma round_dur_near d : Z.abs (round_dur d - d) <= second / 2.
Proof.
  unfold round_dur, second. change (1000000000 / 2) with 500000000.
  destruct (Z.leb 0 d).
  - pose proof (Z.div_mod (d + 500000000) 1000000000 ltac:(lia)) as Hd.
    pose proof (Z.mod_pos_bound (d + 500000000) 1000000000 ltac:(lia)) as Hb. lia.
  - pose proof (Z.div_mod (- d + 500000000) 1000000000 ltac:(lia)) as Hd.
    pose proof (Z.mod_pos_bound (- d + 500000000) 1000000000 ltac:(lia)) as Hb. lia.
Qed.

(* Marshal then Unmarshal at clock reading [now]: a period with a start time, without
   an end, or with an end that is neither a time nor a duration is unchanged; an
   absolute end comes back as an absolute end at most one second away; a relative end
   is re-expressed as the absolute time now + duration (to the second). *)
Theorem timeperiod_roundtrip now p :
  let q := tp_unmarshal now (tp_marshal now p) in
  p_start q = p_start p /\
  match p_start p, p_end p with
  | None, Some (EAbs t) => exists t', p_end q = Some (EAbs t') /\ Z.abs (t' - t) <= second
  | None, Some (ERel d) => exists t', p_end q = Some (EAbs t') /\ Z.abs (t' - (now + d)) <= second / 2
  | _, _ => q = p
  end.
Proof.
  destruct p as [[s|] [[t|d|r]|]]; cbn; try (split; reflexivity).
  - split; [reflexivity|]. eexists. split; [reflexivity|].
    pose proof (round_time_near (now + round_dur (t - now))) as H1.
    pose proof (round_dur_near (t - now)) as H2.
    change (second / 2) with 500000000 in *. unfold second. lia.
  - split; [reflexivity|]. eexists. split; [reflexivity|]. apply round_time_near.
Qed.
