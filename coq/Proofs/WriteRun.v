(* C04 — histories: every trace of the store model is accepted by the write monitor
   of Spec/WriteSpec.v outside the recorded scope (full remote writes; ill-formed data). *)
From Verif Require Import Base.Prelude Model.Schema Model.Update Model.FunctionStore Spec.UpdateSpec Spec.WriteSpec
  Proofs.UpdateBasics Proofs.UpdateRefine Proofs.UpdateStep Proofs.UpdateRun Proofs.WriteProofs.
From Coq Require Import Sorting.Sorted Sorting.Permutation.

Lemma mem_item_In y l : mem_item y l = true <-> In y l.
Proof.
  unfold mem_item. rewrite existsb_exists. split.
  - intros [z [Hz He]]. apply eqb_item_eq in He. subst. exact Hz.
  - intros H. exists y. split; [exact H | apply eqb_item_eq; reflexivity].
Qed.

Lemma perm_eqb_refl l : perm_eqb l l = true.
Proof.
  unfold perm_eqb. rewrite Nat.eqb_refl. cbn [andb].
  assert (H : forallb (fun x => mem_item x l) l = true) by (apply forallb_forall; intros x Hx; apply mem_item_In; exact Hx).
  rewrite H. reflexivity.
Qed.

Lemma forallb_false_exists {A} (p : A -> bool) l : forallb p l = false -> exists x, In x l /\ p x = false.
Proof.
  induction l as [|x l IH]; [discriminate|]. cbn. destruct (p x) eqn:E.
  - intros H. destruct (IH H) as [z [Hz Hp]]. exists z. split; [right; exact Hz | exact Hp].
  - intros _. exists x. split; [left; reflexivity | exact E].
Qed.

Section Clauses.
  Variable sch : schema.
  Hypothesis Hwf : wf_schema sch = true.
  Notation lwf := (lwf sch).
  Notation ch := (changeable sch).
  Notation nf := (s_nf sch).

  Variables (l : list item) (u : upd).
  Hypothesis Hl : lwf l.
  Hypothesis Ho : ordered sch l = true.
  Hypothesis Hu : wf_update sch false u = true.

  Let Hwd : wf_data sch (u_fp u) (u_new u) = true := proj1 (wf_update_parts sch u Hu).
  Let Hwfd : wf_fd sch (u_fd u) := proj2 (wf_update_parts sch u Hu).

  Lemma addressed_false y : addressed sch false u y = false ->
    addr_del sch (u_fd u) y = false /\ addr_dat sch (u_fp u) (u_new u) y = false.
  Proof. unfold addressed. cbn [orb]. intros H. apply orb_false_iff in H. exact H. Qed.

  (* unaddressed elements are kept *)
  Lemma K1 y : In y l -> addressed sch false u y = false -> In y (spec_write sch false u l).
  Proof.
    intros Hy Ha. destruct (addressed_false y Ha) as [H1 H2]. unfold spec_write.
    apply spec_dat_keeps; [apply spec_del_keeps; [exact Hy | exact H1] | exact H2].
  Qed.

  (* every resulting element stems from one with the same identifier and the same flag *)
  Lemma K3 z : In z (spec_write sch false u l) ->
    exists y, In y l /\ key_of sch z = key_of sch y /\ eqb_flag sch y z = true.
  Proof.
    intros Hz. unfold spec_write in Hz. destruct (spec_del_wf sch Hwf (u_fd u) l Hwfd Hl Ho) as [[Hlen2 _] _].
    destruct (spec_dat_origin sch Hwf _ _ _ z Hwd Hlen2 Hz) as [y1 [Hy1 [Hk1 Hf1]]].
    destruct (spec_del_origin sch Hwf _ _ y1 Hwfd (proj1 Hl) Hy1) as [y [Hy [Hk Hf]]]. destruct Hf as [Hf _].
    exists y. split; [exact Hy|]. split; [congruence | eapply eqb_flag_trans; eassumption].
  Qed.

  (* an accepted write addresses changeable elements only *)
  Lemma K2 y : okdel sch (u_fd u) l = true -> okdat sch (u_fp u) (u_new u) (spec_del sch (u_fd u) l) = true ->
    In y l -> ch y = false -> addressed sch false u y = false.
  Proof.
    intros H1 H2 Hy Hc. unfold okdel, okdat in *. rewrite forallb_forall in H1, H2.
    assert (Hd : addr_del sch (u_fd u) y = false).
    { specialize (H1 y Hy). rewrite Hc, orb_false_r in H1. apply negb_true_iff in H1. exact H1. }
    pose proof (spec_del_keeps sch _ l y Hy Hd) as Hy2. specialize (H2 y Hy2). rewrite Hc, orb_false_r in H2.
    apply negb_true_iff in H2. unfold addressed. rewrite Hd, H2. reflexivity.
  Qed.

  (* a rejection is justified by an addressed protected element or an unknown identifier *)
  Lemma K4 :
    okdel sch (u_fd u) l &&
      (okdat sch (u_fp u) (u_new u) (if okdel sch (u_fd u) l then spec_del sch (u_fd u) l else l) &&
       negb (nu sch (u_fp u) (u_new u) (if okdel sch (u_fd u) l then spec_del sch (u_fd u) l else l))) = false ->
    existsb (fun y => addressed sch false u y && negb (ch y)) l || names_unknown sch u (spec_del sch (u_fd u) l) = true.
  Proof.
    intros H. destruct (okdel sch (u_fd u) l) eqn:E1.
    - cbn [andb] in H. apply andb_false_iff in H. destruct H as [H|H].
      + apply forallb_false_exists in H. destruct H as [z [Hz Hp]]. apply orb_false_iff in Hp. destruct Hp as [Ha Hc].
        apply negb_false_iff in Ha.
        destruct (spec_del_origin sch Hwf _ _ z Hwfd (proj1 Hl) Hz) as [y [Hy [_ [_ [_ [Hzy|[Had Hch]]]]]]].
        * subst z. apply orb_true_iff. left. apply existsb_exists. exists y. split; [exact Hy|].
          unfold addressed. rewrite Ha, Hc, orb_true_r. reflexivity.
        * exfalso. unfold okdel in E1. rewrite forallb_forall in E1. specialize (E1 y Hy). rewrite Had in E1. cbn in E1. congruence.
      + apply negb_false_iff in H. apply orb_true_iff. right. exact H.
    - cbn [andb] in H. apply forallb_false_exists in E1. destruct E1 as [y [Hy Hp]]. apply orb_false_iff in Hp. destruct Hp as [Ha Hc].
      apply negb_false_iff in Ha. apply orb_true_iff. left. apply existsb_exists. exists y. split; [exact Hy|].
      unfold addressed. rewrite Ha, Hc. reflexivity.
  Qed.

  (* the three "nothing else changed" clauses for data that did not change *)
  Lemma unchanged_protected : forallb (fun y => ch y || mem_item y l) l = true.
  Proof. apply forallb_forall. intros y Hy. apply orb_true_iff. right. apply mem_item_In. exact Hy. Qed.

  Lemma unchanged_unaddressed full : forallb (fun y => addressed sch full u y || mem_item y l) l = true.
  Proof. apply forallb_forall. intros y Hy. apply orb_true_iff. right. apply mem_item_In. exact Hy. Qed.

  Lemma unchanged_flag : forallb (flag_kept sch l) l = true.
  Proof.
    apply forallb_forall. intros z Hz. unfold flag_kept. destruct (key_of sch z) as [k|] eqn:Ek; [|reflexivity].
    apply orb_true_iff. right. apply existsb_exists. exists z. split; [exact Hz|]. rewrite Ek, eqb_key_refl, eqb_flag_refl. reflexivity.
  Qed.

  (* ... and for the data after an accepted write *)
  Lemma accepted_protected : okdel sch (u_fd u) l = true -> okdat sch (u_fp u) (u_new u) (spec_del sch (u_fd u) l) = true ->
    forallb (fun y => ch y || mem_item y (spec_write sch false u l)) l = true.
  Proof.
    intros H1 H2. apply forallb_forall. intros y Hy. destruct (ch y) eqn:Ec; [reflexivity|]. cbn [orb].
    apply mem_item_In. apply K1; [exact Hy | apply K2; assumption].
  Qed.

  Lemma accepted_unaddressed : forallb (fun y => addressed sch false u y || mem_item y (spec_write sch false u l)) l = true.
  Proof.
    apply forallb_forall. intros y Hy. destruct (addressed sch false u y) eqn:Ea; [reflexivity|]. cbn [orb].
    apply mem_item_In. apply K1; assumption.
  Qed.

  Lemma accepted_flag : forallb (flag_kept sch l) (spec_write sch false u l) = true.
  Proof.
    apply forallb_forall. intros z Hz. unfold flag_kept. destruct (key_of sch z) as [k|] eqn:Ek; [|reflexivity].
    destruct (K3 z Hz) as [y [Hy [Hk Hf]]]. rewrite Ek in Hk.
    apply orb_true_iff. right. apply existsb_exists. exists y. split; [exact Hy|]. rewrite <- Hk, eqb_key_refl, Hf. reflexivity.
  Qed.

  Lemma accepted_changeable : okdel sch (u_fd u) l = true -> okdat sch (u_fp u) (u_new u) (spec_del sch (u_fd u) l) = true ->
    forallb (fun y => negb (addressed sch false u y) || ch y) l = true.
  Proof.
    intros H1 H2. apply forallb_forall. intros y Hy. destruct (ch y) eqn:Ec; [apply orb_true_r|].
    rewrite (K2 y H1 H2 Hy Ec). reflexivity.
  Qed.

  Lemma written_wf : lwf (spec_write sch false u l) /\ ordered sch (spec_write sch false u l) = true.
  Proof.
    unfold spec_write. destruct (spec_del_wf sch Hwf (u_fd u) l Hwfd Hl Ho) as [H1 H2].
    apply (spec_dat_wf sch Hwf); assumption.
  Qed.
End Clauses.

(* ================================================================ histories *)

Definition WInv (s : st) (wm : wmst) (ws : wsst) : Prop :=
  wm_sch wm = sch s /\ wm_direct wm = direct s /\ ws_sch ws = sch s /\ ws_direct ws = direct s /\
  wm_last wm = storel s /\
  (ws_oos ws = false -> wf_schema (sch s) = true /\ lwf (sch s) (storel s) /\ ordered (sch s) (storel s) = true).

Lemma WInv_init : WInv init wminit wsinit.
Proof. unfold WInv, init, wminit, wsinit. cbn. repeat split; try discriminate. Qed.

Lemma excused_six (b1 b2 b3 b4 b5 b6 : bool) :
  excused ((if b1 then [] else [CL_PROTECTED]) ++ (if b2 then [] else [CL_FLAG]) ++ (if b3 then [] else [CL_UNADDRESSED]) ++
           (if b4 then [] else [CL_ACCEPT]) ++ (if b5 then [] else [CL_ERR]) ++ (if b6 then [] else [CL_OK]))
          [CL_PROTECTED; CL_FLAG; CL_UNADDRESSED; CL_ACCEPT; CL_ERR; CL_OK; CL_OVERLAP] = true.
Proof. destruct b1, b2, b3, b4, b5, b6; reflexivity. Qed.

Lemma excused_full (b1 b2 b4 : bool) :
  excused ((if b1 then [] else [CL_PROTECTED]) ++ (if b2 then [] else [CL_FLAG]) ++ (if true then [] else [CL_UNADDRESSED]) ++
           (if b4 then [] else [CL_ACCEPT]) ++ (if true then [] else [CL_ERR]) ++ (if true then [] else [CL_OK]))
          [CL_PROTECTED; CL_FLAG; CL_ACCEPT] = true.
Proof. destruct b1, b2, b4; reflexivity. Qed.

Lemma excused_weak (b2 b4 b6 : bool) :
  excused ((if true then [] else [CL_PROTECTED]) ++ (if b2 then [] else [CL_FLAG]) ++ (if true then [] else [CL_UNADDRESSED]) ++
           (if b4 then [] else [CL_ACCEPT]) ++ (if true then [] else [CL_ERR]) ++ (if b6 then [] else [CL_OK]))
          [CL_FLAG; CL_ACCEPT; CL_OK; CL_OVERLAP] = true.
Proof. destruct b2, b4, b6; reflexivity. Qed.

Lemma olist_storel s : olist (store s) = storel s.
Proof. reflexivity. Qed.

Lemma wf_update_full sch u : wf_update sch true u = true -> u_fp u = None -> u_fd u = None ->
  wf_items sch (u_new u) = true /\ ordered sch (u_new u) = true.
Proof.
  intros H Hp Hd. unfold wf_update in H. rewrite Hp, Hd in H. cbn [filter_data] in H.
  apply andb_true_iff in H. destruct H as [_ H]. apply andb_true_iff in H. exact H.
Qed.

Lemma is_full_parts persist u : is_full persist u = true -> persist = true /\ u_fp u = None /\ u_fd u = None.
Proof.
  unfold is_full. intros H. apply andb_true_iff in H. destruct H as [H H3]. apply andb_true_iff in H. destruct H as [H1 H2].
  destruct (u_fp u); [discriminate|]. destruct (u_fd u); [discriminate|]. auto.
Qed.

Lemma ordered_nil sch : ordered sch [] = true.
Proof. reflexivity. Qed.

Opaque spec_write accept_ok wf_update wf_schema ordered.

Lemma wstep_ok s wm ws o :
  WInv s wm ws ->
  let '(s1, out) := step s o in
  let '(wm1, v) := wmon wm o out in
  let ws1 := wscope ws o in
  excused v (wexcuses ws1) = true /\ WInv s1 wm1 ws1.
Proof.
  intros (Hms & Hmd & Hss & Hsd & Hlast & Hin).
  assert (Hcase : ws_oos ws = true \/ ws_oos ws = false) by (destruct (ws_oos ws); auto).
  destruct o as [ty d|remote persist wire u|].
  - (* Init *)
    cbn. split; [reflexivity|]. unfold WInv. cbn.
    split; [reflexivity|]. split; [reflexivity|]. split; [reflexivity|]. split; [reflexivity|].
    split; [destruct d; reflexivity|].
    intros H0. apply negb_false_iff in H0. split; [exact H0|].
    destruct d; (split; [apply lwf_nil | apply ordered_nil]).
  - (* Update *)
    cbn [step].
    destruct (update_data s remote persist u) as [s1 out0] eqn:Eud.
    destruct (update_data_obs s remote persist u) as [c [rest [Hout Hrest]]]. rewrite Eud in Hout. cbn [snd] in Hout. subst out0.
    destruct (update_data_fields s remote persist u) as [Hs1s Hs1d]. rewrite Eud in Hs1s, Hs1d. cbn [fst] in Hs1s, Hs1d.
    cbn [app wmon]. rewrite (stored_app_ret rest (store s1) _ Hrest). rewrite olist_storel.
    rewrite Hms, Hmd, Hlast.
    (* the unconditional part of the invariant *)
    assert (Hbase : forall oos fw, oos = true ->
              WInv s1 {| wm_sch := sch s; wm_direct := direct s; wm_last := storel s1 |}
                      {| ws_sch := sch s; ws_direct := direct s; ws_oos := oos; ws_fullw := fw |}).
    { intros oos fw ->. unfold WInv. cbn [wm_sch wm_direct wm_last ws_sch ws_direct ws_oos]. rewrite Hs1s, Hs1d.
      split; [reflexivity|]. split; [reflexivity|]. split; [reflexivity|]. split; [reflexivity|]. split; [reflexivity|].
      intros Hd; discriminate. }
    assert (Hscope : forall oos fw, oos = false ->
              (wf_schema (sch s) = true /\ lwf (sch s) (storel s1) /\ ordered (sch s) (storel s1) = true) ->
              WInv s1 {| wm_sch := sch s; wm_direct := direct s; wm_last := storel s1 |}
                      {| ws_sch := sch s; ws_direct := direct s; ws_oos := oos; ws_fullw := fw |}).
    { intros oos fw -> H. unfold WInv. cbn [wm_sch wm_direct wm_last ws_sch ws_direct ws_oos]. rewrite Hs1s, Hs1d.
      split; [reflexivity|]. split; [reflexivity|]. split; [reflexivity|]. split; [reflexivity|]. split; [reflexivity|].
      intros _. exact H. }
    cbn [wscope]. rewrite Hss, Hsd.
    destruct remote.
    + (* remote write *)
      destruct persist.
      2:{ cbn [negb]. cbv iota. unfold wexcuses. cbn [ws_oos]. split; [apply excused_six | apply Hbase; reflexivity]. }
      cbn [negb]. cbv iota.
      destruct (negb (direct s) && is_full true u) eqn:Efull.
      * (* full remote write: the recorded finding *)
        destruct (ws_oos ws || negb (wf_update (sch s) true u)) eqn:Eo.
        { unfold wexcuses. cbn [ws_oos]. split; [apply excused_six | apply Hbase; reflexivity]. }
        apply orb_false_iff in Eo. destruct Eo as [Eo Ewu]. apply negb_false_iff in Ewu.
        destruct (Hin Eo) as [Hwf [Hl Ho]].
        assert (Hfu : is_full true u = true) by (apply andb_true_iff in Efull; apply Efull).
        destruct (is_full_parts _ _ Hfu) as [_ [Hfp Hfd]].
        assert (Hs1 : storel s1 = u_new u /\ c = 0%N).
        { revert Eud. unfold update_data. rewrite Efull. intros E. inversion E. split; reflexivity. }
        destruct Hs1 as [Hst ->].
        destruct (wf_update_full _ _ Ewu Hfp Hfd) as [Hwi Hord].
        split.
        -- unfold wexcuses. cbn [ws_oos ws_fullw].
           assert (H3 : forallb (fun y => addressed (sch s) true u y || mem_item y (storel s1)) (storel s) = true).
           { apply forallb_forall. intros y _. reflexivity. }
           assert (H6 : negb (0 =? 0)%N || perm_eqb (storel s1) (spec_write (sch s) true u (storel s)) = true).
           { Transparent spec_write. unfold spec_write. Opaque spec_write. rewrite Hst. cbn [N.eqb negb orb]. apply perm_eqb_refl. }
           rewrite H3, H6. cbn [N.eqb orb]. apply excused_full.
        -- apply Hscope; [reflexivity|]. rewrite Hst. split; [exact Hwf|]. split; [apply (wf_items_lwf (sch s)); exact Hwi | exact Hord].
      * (* partial / selector / delete remote write *)
        destruct (ws_oos ws || negb (wf_update (sch s) false u)) eqn:Eo.
        { (* out of scope; a write on the Merge path is still held to PROTECTED, UNADDRESSED and ERR *)
          cbn [andb]. unfold wexcuses. cbn [ws_oos ws_fullw].
          destruct (wf_schema (sch s) && weak_shape (sch s) u) eqn:Ew; [|split; [apply excused_six | apply Hbase; reflexivity]].
          apply andb_true_iff in Ew. destruct Ew as [Hwf0 Hweak].
          split; [|apply Hbase; reflexivity].
          revert Eud. unfold update_data. rewrite Efull.
          change (match store s with Some l => l | None => [] end) with (storel s).
          destruct (update_list (sch s) true (storel s) (u_new u) (u_fp u) (u_fd u)) as [[d [|]]|] eqn:E;
            intros Eud; inversion Eud; subst s1 c rest.
          - cbn [storel store N.eqb orb].
            assert (H1 : forallb (fun y => changeable (sch s) y || mem_item y d) (storel s) = true).
            { apply forallb_forall. intros y Hy. destruct (changeable (sch s) y) eqn:Ec; [reflexivity|]. cbn [orb].
              apply mem_item_In. apply (weak_write (sch s) Hwf0 _ u d Hweak E y Hy). left. exact Ec. }
            assert (H3 : forallb (fun y => addressed (sch s) false u y || mem_item y d) (storel s) = true).
            { apply forallb_forall. intros y Hy. destruct (addressed (sch s) false u y) eqn:Ea; [reflexivity|]. cbn [orb].
              apply mem_item_In. apply (weak_write (sch s) Hwf0 _ u d Hweak E y Hy). right. exact Ea. }
            rewrite H1, H3. apply excused_weak.
          - rewrite unchanged_protected, unchanged_unaddressed, eqb_items_refl, orb_true_r. apply excused_weak.
          - rewrite unchanged_protected, unchanged_unaddressed, eqb_items_refl, orb_true_r. apply excused_weak. }
        apply orb_false_iff in Eo. destruct Eo as [Eo Ewu]. apply negb_false_iff in Ewu.
        destruct (Hin Eo) as [Hwf [Hl Ho]].
        unfold wexcuses. cbn [ws_oos ws_fullw].
        revert Eud. unfold update_data. rewrite Efull.
        change (match store s with Some l => l | None => [] end) with (storel s).
        destruct (update_list (sch s) true (storel s) (u_new u) (u_fp u) (u_fd u)) as [[d ok]|] eqn:E.
        -- destruct (remote_write (sch s) Hwf _ _ _ _ Hl Ho Ewu E) as [Hok Hd]. cbv zeta in Hok.
           destruct ok.
           ++ (* accepted *)
              intros Eud. inversion Eud. subst s1 c rest. cbn [storel store].
              specialize (Hd eq_refl). subst d. symmetry in Hok.
              apply andb_true_iff in Hok. destruct Hok as [Hk1 Hk2]. rewrite Hk1 in Hk2.
              apply andb_true_iff in Hk2. destruct Hk2 as [Hk2 Hk3].
              split.
              ** rewrite accepted_protected by assumption. rewrite accepted_flag by assumption.
                 rewrite accepted_unaddressed by assumption. rewrite perm_eqb_refl.
                 Transparent accept_ok. unfold accept_ok. Opaque accept_ok. cbn [N.eqb].
                 rewrite accepted_changeable by assumption. reflexivity.
              ** apply Hscope; [reflexivity|]. cbn [storel store]. split; [exact Hwf|]. apply written_wf; assumption.
           ++ (* rejected: the data is what it was *)
              intros Eud. inversion Eud. subst s1 c rest.
              split.
              ** rewrite unchanged_protected, unchanged_unaddressed. rewrite unchanged_flag by assumption.
                 rewrite eqb_items_refl. Transparent accept_ok. unfold accept_ok. Opaque accept_ok. cbn [N.eqb negb orb andb].
                 symmetry in Hok. rewrite K4 by assumption. reflexivity.
              ** apply Hscope; [reflexivity|]. split; [exact Hwf|]. split; assumption.
        -- (* panic: nothing is applied *)
           intros Eud. inversion Eud. subst s1 c rest.
           split.
           ++ rewrite unchanged_protected, unchanged_unaddressed. rewrite unchanged_flag by assumption.
              rewrite eqb_items_refl. Transparent accept_ok. unfold accept_ok. Opaque accept_ok. reflexivity.
           ++ apply Hscope; [reflexivity|]. split; [exact Hwf|]. split; assumption.
    + (* local update: nothing to judge, the invariant follows the scope *)
      split; [reflexivity|].
      destruct persist.
      2:{ cbn [negb]. cbv iota.
          assert (Hs1 : s1 = s).
          { revert Eud. unfold update_data.
            assert (Hf : negb (direct s) && is_full false u = false) by (unfold is_full; cbn; apply andb_false_r).
            rewrite Hf. destruct (update_list (sch s) false _ (u_new u) (u_fp u) (u_fd u)) as [[d0 [|]]|]; intros E; inversion E; reflexivity. }
          subst s1. destruct Hcase as [Eo|Eo]; [apply Hbase; exact Eo | apply Hscope; [exact Eo | apply Hin; exact Eo]]. }
      cbn [negb]. cbv iota.
      destruct (wf_update (sch s) (negb (direct s) && is_full true u) u) eqn:Ewu; [|apply Hbase; reflexivity].
      destruct (negb (direct s) && is_full true u) eqn:Efull.
      * destruct (negb (wf_schema (sch s))) eqn:Ew; [apply Hbase; reflexivity|]. apply negb_false_iff in Ew.
        assert (Hfu : is_full true u = true) by (apply andb_true_iff in Efull; apply Efull).
        destruct (is_full_parts _ _ Hfu) as [_ [Hfp Hfd]].
        assert (Hst : storel s1 = u_new u).
        { revert Eud. unfold update_data. rewrite Efull. intros E. inversion E. reflexivity. }
        destruct (wf_update_full _ _ Ewu Hfp Hfd) as [Hwi Hord].
        apply Hscope; [reflexivity|]. rewrite Hst. split; [exact Ew|]. split; [apply (wf_items_lwf (sch s)); exact Hwi | exact Hord].
      * destruct Hcase as [Eo|Eo]; [apply Hbase; exact Eo|].
        destruct (Hin Eo) as [Hwf [Hl Ho]].
        pose proof (update_data_local s (of_list (sch s) (storel s)) u Hwf (Inv_of_list (sch s) _ Hl Ho) Efull Ewu) as Hcases.
        cbv zeta in Hcases. rewrite Eud in Hcases. cbn [fst snd] in Hcases.
        apply Hscope; [exact Eo|]. split; [exact Hwf|].
        destruct Hcases as [[d [_ [Hst [HId _]]]]|[c0 [_ [_ ->]]]].
        -- rewrite Hst. destruct HId as [Hld [Hod _]]. split; assumption.
        -- split; assumption.
  - (* Snapshot *)
    cbn. split; [reflexivity|]. unfold WInv. cbn.
    split; [assumption|]. split; [assumption|]. split; [assumption|]. split; [assumption|]. split; [reflexivity | exact Hin].
Qed.

Theorem wrun_accepted_from s wm ws ops :
  WInv s wm ws -> accepted (wjudge wm ws (snd (run s ops))) = true.
Proof.
  revert s wm ws. induction ops as [|o r IH]; intros s wm ws HR; [reflexivity|].
  cbn [run]. pose proof (wstep_ok s wm ws o HR) as Hstep.
  destruct (step s o) as [s1 out]. destruct (run s1 r) as [s2 tr] eqn:Er. cbn [snd wjudge].
  destruct (wmon wm o out) as [wm1 v]. cbv zeta in Hstep. destruct Hstep as [Hv HR1].
  unfold accepted. cbn [forallb fst snd]. rewrite Hv. cbn [andb].
  specialize (IH s1 wm1 (wscope ws o) HR1). rewrite Er in IH. exact IH.
Qed.

Theorem wrun_accepted : forall ops, accepted (wjudge wminit wsinit (snd (run init ops))) = true.
Proof. intros ops. apply wrun_accepted_from. apply WInv_init. Qed.

(* one in-scope remote write that is not a full write, as the store sees it: everything the
   monitors of C02 and C04 need *)
Lemma update_data_remote s u :
  wf_schema (sch s) = true -> lwf (sch s) (storel s) -> ordered (sch s) (storel s) = true ->
  negb (direct s) && is_full true u = false -> wf_update (sch s) false u = true ->
  let r := update_data s true true u in
  (exists d, snd r = [Res 0; Ret d] /\ storel (fst r) = d /\ d = spec_write (sch s) false u (storel s) /\
             lwf (sch s) d /\ ordered (sch s) d = true /\ accept_ok (sch s) false 0 u (storel s) = true) \/
  (exists c, snd r = [Res c] /\ c <> 0%N /\ fst r = s /\ accept_ok (sch s) false c u (storel s) = true).
Proof.
  intros Hwf Hl Ho Hnf Hu r. subst r. unfold update_data. rewrite Hnf.
  change (match store s with Some l => l | None => [] end) with (storel s).
  destruct (update_list (sch s) true (storel s) (u_new u) (u_fp u) (u_fd u)) as [[d ok]|] eqn:E.
  - destruct (remote_write (sch s) Hwf _ _ _ _ Hl Ho Hu E) as [Hok Hd]. cbv zeta in Hok. destruct ok.
    + left. exists d. cbn [fst snd storel store]. specialize (Hd eq_refl). subst d. symmetry in Hok.
      apply andb_true_iff in Hok. destruct Hok as [Hk1 Hk2]. rewrite Hk1 in Hk2. apply andb_true_iff in Hk2. destruct Hk2 as [Hk2 Hk3].
      split; [reflexivity|]. split; [reflexivity|]. split; [reflexivity|].
      destruct (written_wf (sch s) Hwf _ u Hl Ho Hu) as [Hl2 Ho2]. split; [exact Hl2|]. split; [exact Ho2|].
      Transparent accept_ok. unfold accept_ok. Opaque accept_ok. cbn [N.eqb].
      rewrite accepted_changeable by assumption. reflexivity.
    + right. exists 1%N. cbn [fst snd]. split; [reflexivity|]. split; [discriminate|]. split; [reflexivity|].
      Transparent accept_ok. unfold accept_ok. Opaque accept_ok. cbn [N.eqb negb orb andb].
      symmetry in Hok. rewrite K4 by assumption. reflexivity.
  - right. exists 2%N. cbn [fst snd]. split; [reflexivity|]. split; [discriminate|]. split; [reflexivity|].
    Transparent accept_ok. unfold accept_ok. Opaque accept_ok. reflexivity.
Qed.
