(* C19 — proofs about Model/TimeFmt.v: the days <-> civil-date algorithms are inverse
   for every day number, texts of instants in the years 0..9999 are read back exactly,
   and the rounding facts used for the relative end of a time period. *)
From Verif Require Import Base.Prelude Model.Period Model.TimeFmt Model.Conv Spec.ConvSpec.
Open Scope Z_scope.

(* ---------- the part of civil_from_days that depends on the day of the era only ---------- *)

Definition yoe_of (doe : Z) : Z := (doe - doe / 1460 + doe / 36524 - doe / 146096) / 365.
Definition doy_of (doe : Z) : Z :=
  let yoe := yoe_of doe in doe - (365 * yoe + yoe / 4 - yoe / 100).
Definition mp_of (doe : Z) : Z := (5 * doy_of doe + 2) / 153.
Definition d_of (doe : Z) : Z := doy_of doe - (153 * mp_of doe + 2) / 5 + 1.
Definition m_of (doe : Z) : Z := if mp_of doe <? 10 then mp_of doe + 3 else mp_of doe - 9.

Lemma civil_from_days_eq : forall z,
  civil_from_days z =
  (if m_of ((z + 719468) mod 146097) <=? 2
   then yoe_of ((z + 719468) mod 146097) + (z + 719468) / 146097 * 400 + 1
   else yoe_of ((z + 719468) mod 146097) + (z + 719468) / 146097 * 400,
   m_of ((z + 719468) mod 146097), d_of ((z + 719468) mod 146097)).
Proof. intros z. reflexivity. Qed.

(* the day of the era recomputed by the formulas of days_from_civil *)
Definition doe_back (yoe m d : Z) : Z :=
  yoe * 365 + yoe / 4 - yoe / 100 + ((153 * (if 2 <? m then m - 3 else m + 9) + 2) / 5 + d - 1).

Definition chk (doe : Z) : bool :=
  let yoe := (doe - doe / 1460 + doe / 36524 - doe / 146096) / 365 in
  let doy := doe - (365 * yoe + yoe / 4 - yoe / 100) in
  let mp := (5 * doy + 2) / 153 in
  let d := doy - (153 * mp + 2) / 5 + 1 in
  let m := if mp <? 10 then mp + 3 else mp - 9 in
  (0 <=? yoe) && (yoe <? 400) && (1 <=? m) && (m <=? 12) && (1 <=? d) && (d <=? 31)
  && (doe_back yoe m d =? doe)
  && Bool.eqb (146037 <=? doe) ((yoe =? 399) && (m <=? 2)).

Lemma chk_eq : forall doe,
  chk doe =
  (0 <=? yoe_of doe) && (yoe_of doe <? 400) && (1 <=? m_of doe) && (m_of doe <=? 12)
  && (1 <=? d_of doe) && (d_of doe <=? 31)
  && (doe_back (yoe_of doe) (m_of doe) (d_of doe) =? doe)
  && Bool.eqb (146037 <=? doe) ((yoe_of doe =? 399) && (m_of doe <=? 2)).
Proof. intros doe. reflexivity. Qed.

(* checks chk on [s, s + p) with logarithmic recursion depth *)
Fixpoint chk_range (p : positive) (s : Z) : bool :=
  match p with
  | xH => chk s
  | xO p' => chk_range p' s && chk_range p' (s + Zpos p')
  | xI p' => chk s && chk_range p' (s + 1) && chk_range p' (s + 1 + Zpos p')
  end.

Lemma chk_range_sound : forall p s, chk_range p s = true ->
  forall x, s <= x < s + Zpos p -> chk x = true.
Proof.
  induction p as [p IH | p IH | ]; intros s H x Hx; cbn [chk_range] in H.
  - apply andb_prop in H. destruct H as [H H2].
    apply andb_prop in H. destruct H as [H0 H1].
    rewrite Pos2Z.inj_xI in Hx.
    destruct (Z.eq_dec x s) as [Heq | Hne]; [subst x; exact H0 | ].
    destruct (Z_lt_dec x (s + 1 + Zpos p)) as [Hlt | Hge].
    + apply (IH _ H1). lia.
    + apply (IH _ H2). lia.
  - apply andb_prop in H. destruct H as [H1 H2].
    rewrite Pos2Z.inj_xO in Hx.
    destruct (Z_lt_dec x (s + Zpos p)) as [Hlt | Hge].
    + apply (IH _ H1). lia.
    + apply (IH _ H2). lia.
  - assert (x = s) by lia. subst x. exact H.
Qed.

Lemma chk_range_all : chk_range 146097 0 = true.
Proof. vm_cast_no_check (eq_refl true). Qed.

Lemma chk_all : forall doe, 0 <= doe < 146097 -> chk doe = true.
Proof.
  intros doe H. apply (chk_range_sound 146097 0 chk_range_all). lia.
Qed.

Lemma chk_spec : forall doe, 0 <= doe < 146097 ->
  0 <= yoe_of doe < 400 /\ 1 <= m_of doe <= 12 /\ 1 <= d_of doe <= 31 /\
  doe_back (yoe_of doe) (m_of doe) (d_of doe) = doe /\
  (146037 <= doe <-> (yoe_of doe = 399 /\ m_of doe <= 2)).
Proof.
  intros doe H. pose proof (chk_all doe H) as C. rewrite chk_eq in C.
  apply andb_prop in C. destruct C as [C C8].
  apply andb_prop in C. destruct C as [C C7].
  apply andb_prop in C. destruct C as [C C6].
  apply andb_prop in C. destruct C as [C C5].
  apply andb_prop in C. destruct C as [C C4].
  apply andb_prop in C. destruct C as [C C3].
  apply andb_prop in C. destruct C as [C1 C2].
  apply Z.leb_le in C1. apply Z.ltb_lt in C2. apply Z.leb_le in C3. apply Z.leb_le in C4.
  apply Z.leb_le in C5. apply Z.leb_le in C6. apply Z.eqb_eq in C7.
  apply Bool.eqb_prop in C8.
  split; [lia | ]. split; [lia | ]. split; [lia | ]. split; [exact C7 | ].
  split.
  - intros Hd. apply Z.leb_le in Hd. rewrite Hd in C8. symmetry in C8.
    apply andb_prop in C8. destruct C8 as [Ca Cb].
    apply Z.eqb_eq in Ca. apply Z.leb_le in Cb. split; assumption.
  - intros [Ha Hb]. apply Z.eqb_eq in Ha. apply Z.leb_le in Hb.
    rewrite Ha, Hb in C8. cbn [andb] in C8. apply Z.leb_le. exact C8.
Qed.

Lemma days_from_civil_era : forall era yoe m d, 0 <= yoe < 400 ->
  days_from_civil (if m <=? 2 then yoe + era * 400 + 1 else yoe + era * 400) m d =
  era * 146097 + doe_back yoe m d - 719468.
Proof.
  intros era yoe m d Hy. unfold days_from_civil, doe_back.
  assert (E : (if m <=? 2
               then (if m <=? 2 then yoe + era * 400 + 1 else yoe + era * 400) - 1
               else (if m <=? 2 then yoe + era * 400 + 1 else yoe + era * 400))
              = yoe + era * 400) by (destruct (m <=? 2); lia).
  rewrite E.
  rewrite Z.div_add by lia. rewrite Z.mod_add by lia.
  rewrite Z.div_small by lia. rewrite Z.mod_small by lia.
  lia.
Qed.

(* ---------- round trips ---------- *)

Lemma civil_roundtrip : forall z,
  let '(y, m, d) := civil_from_days z in days_from_civil y m d = z.
Proof.
  intros z. rewrite civil_from_days_eq.
  assert (Hd : 0 <= (z + 719468) mod 146097 < 146097) by (apply Z.mod_pos_bound; lia).
  destruct (chk_spec _ Hd) as [Hy [_ [_ [Hb _]]]].
  rewrite days_from_civil_era by exact Hy.
  rewrite Hb.
  pose proof (Z.div_mod (z + 719468) 146097) as E. lia.
Qed.

Lemma unix_roundtrip : forall s, unix_of_text (text_of_unix s) = s.
Proof.
  intros s. unfold text_of_unix.
  pose proof (civil_roundtrip (s / 86400)) as R.
  destruct (civil_from_days (s / 86400)) as [[y m] d].
  unfold unix_of_text. cbn [d_y d_mo d_d d_h d_mi d_s]. rewrite R.
  Z.div_mod_to_equations. lia.
Qed.

Example text_of_unix_year_0 :
  text_of_unix UNIX_YEAR_0 = {| d_y := 0; d_mo := 1; d_d := 1; d_h := 0; d_mi := 0; d_s := 0 |}.
Proof. vm_compute. reflexivity. Qed.

Example text_of_unix_year_9999 :
  text_of_unix (UNIX_YEAR_10000 - 1) =
  {| d_y := 9999; d_mo := 12; d_d := 31; d_h := 23; d_mi := 59; d_s := 59 |}.
Proof. vm_compute. reflexivity. Qed.

Example text_of_unix_year_10000 : d_y (text_of_unix UNIX_YEAR_10000) = 10000.
Proof. vm_compute. reflexivity. Qed.

Example text_of_unix_year_m1 : d_y (text_of_unix (UNIX_YEAR_0 - 1)) = -1.
Proof. vm_compute. reflexivity. Qed.

Lemma d_y_text_of_unix : forall s,
  d_y (text_of_unix s) =
  if m_of ((s / 86400 + 719468) mod 146097) <=? 2
  then yoe_of ((s / 86400 + 719468) mod 146097) + (s / 86400 + 719468) / 146097 * 400 + 1
  else yoe_of ((s / 86400 + 719468) mod 146097) + (s / 86400 + 719468) / 146097 * 400.
Proof.
  intros s. unfold text_of_unix. rewrite civil_from_days_eq. reflexivity.
Qed.

Lemma year_in_range : forall s, UNIX_YEAR_0 <= s < UNIX_YEAR_10000 ->
  0 <= d_y (text_of_unix s) <= 9999.
Proof.
  intros s Hs. rewrite d_y_text_of_unix.
  unfold UNIX_YEAR_0, UNIX_YEAR_10000 in Hs.
  assert (Hz : -60 <= s / 86400 + 719468 < 3652365) by (Z.div_mod_to_equations; lia).
  remember (s / 86400 + 719468) as z' eqn:Ez. clear Ez Hs s.
  assert (Hd : 0 <= z' mod 146097 < 146097) by (apply Z.mod_pos_bound; lia).
  pose proof (Z.div_mod z' 146097) as E.
  destruct (chk_spec _ Hd) as [Hy [Hm [_ [_ Hlast]]]].
  remember (z' mod 146097) as doe eqn:Edoe.
  remember (z' / 146097) as era eqn:Eera.
  clear Edoe Eera.
  assert (He : -1 <= era <= 24) by lia.
  destruct (m_of doe <=? 2) eqn:Em.
  - apply Z.leb_le in Em.
    assert (Hc : era = -1 \/ (0 <= era <= 23) \/ era = 24) by lia.
    destruct Hc as [Hc | [Hc | Hc]].
    + assert (H1 : 146037 <= doe) by lia. apply Hlast in H1. lia.
    + lia.
    + assert (H1 : ~ 146037 <= doe) by lia.
      assert (H2 : yoe_of doe <> 399) by (intro H3; apply H1; apply Hlast; lia).
      lia.
  - apply Z.leb_gt in Em.
    assert (Hc : era = -1 \/ (0 <= era <= 24)) by lia.
    destruct Hc as [Hc | Hc].
    + assert (H1 : 146037 <= doe) by lia. apply Hlast in H1. lia.
    + lia.
Qed.

Lemma get_time_text_of_unix : forall s, UNIX_YEAR_0 <= s < UNIX_YEAR_10000 ->
  get_time (text_of_unix s) = Some s.
Proof.
  intros s Hs. unfold get_time. pose proof (year_in_range s Hs) as [H0 H1].
  apply Z.leb_le in H0. apply Z.leb_le in H1. rewrite H0, H1. cbn [andb].
  rewrite unix_roundtrip. reflexivity.
Qed.

Lemma round_second_0 : forall sec, round_second sec 0 = sec.
Proof. intros sec. reflexivity. Qed.

Lemma instant_roundtrip : forall sec, UNIX_YEAR_0 <= sec < UNIX_YEAR_10000 ->
  get_time (new_datetime sec 0) = Some sec.
Proof.
  intros sec Hs. unfold new_datetime. rewrite round_second_0.
  apply get_time_text_of_unix. exact Hs.
Qed.

(* ---------- rounding facts used for the relative end ---------- *)

Lemma round_second_bound : forall t,   (* t in Unix ns, any sign *)
  let r := round_second (t / NS_SECOND) (t mod NS_SECOND) in
  Z.abs (r * NS_SECOND - t) * 2 <= NS_SECOND.
Proof.
  intros t. cbv zeta. unfold round_second, NS_SECOND.
  destruct (500000000 <=? t mod 1000000000) eqn:E;
    [apply Z.leb_le in E | apply Z.leb_gt in E];
    Z.div_mod_to_equations; lia.
Qed.

Lemma round_half_away_spec : forall x,
  let r := round_half_away x NS_SECOND in
  Z.rem r NS_SECOND = 0 /\ Z.abs (r - x) * 2 <= NS_SECOND.
Proof.
  intros x. cbv zeta. unfold round_half_away, NS_SECOND.
  assert (Ha : 0 <= Z.abs x) by lia.
  pose proof (Z.rem_mod_nonneg (Z.abs x) 1000000000 Ha ltac:(lia)) as Er.
  rewrite Er.
  pose proof (Z.div_mod (Z.abs x) 1000000000 ltac:(lia)) as Ed.
  pose proof (Z.mod_pos_bound (Z.abs x) 1000000000 ltac:(lia)) as Hb.
  remember (Z.abs x mod 1000000000) as r eqn:Hr.
  remember (Z.abs x / 1000000000) as k eqn:Hk.
  clear Hr Hk Er.
  assert (Rk : forall j, Z.rem (j * 1000000000) 1000000000 = 0)
    by (intros j; apply Z.rem_mul; lia).
  destruct (r + r <? 1000000000) eqn:E1; [apply Z.ltb_lt in E1 | apply Z.ltb_ge in E1];
  destruct (x <? 0) eqn:E2; [apply Z.ltb_lt in E2 | apply Z.ltb_ge in E2 | apply Z.ltb_lt in E2 | apply Z.ltb_ge in E2].
  - replace (- (Z.abs x - r)) with ((- k) * 1000000000) by lia. split; [apply Rk | lia].
  - replace (Z.abs x - r) with (k * 1000000000) by lia. split; [apply Rk | lia].
  - replace (- (Z.abs x + 1000000000 - r)) with ((- k - 1) * 1000000000) by lia. split; [apply Rk | lia].
  - replace (Z.abs x + 1000000000 - r) with ((k + 1) * 1000000000) by lia. split; [apply Rk | lia].
Qed.

(* the stored absolute end is readable when now+dur lies in the years 0..9999 *)
Lemma abs_end_readable : forall now dur, end_in_range (now + dur) = true ->
  exists es, get_time (abs_end now dur) = Some es /\
             Z.abs (es * NS_SECOND - (now + dur)) * 2 <= NS_SECOND.
Proof.
  intros now dur H. unfold end_in_range in H.
  apply andb_prop in H. destruct H as [H1 H2].
  apply Z.leb_le in H1. apply Z.ltb_lt in H2.
  unfold abs_end. cbv zeta. unfold new_datetime.
  remember (now + dur) as t eqn:Et. clear Et now dur.
  exists (round_second (t / NS_SECOND) (t mod NS_SECOND)). split.
  - apply get_time_text_of_unix.
    unfold round_second. unfold UNIX_YEAR_0, UNIX_YEAR_10000, NS_SECOND in *.
    destruct (500000000 <=? t mod 1000000000); Z.div_mod_to_equations; lia.
  - apply (round_second_bound t).
Qed.
