(* Effects of teardown (entity removal by discovery notification, disconnect) and of the
   other operations on BOTH registries of Model/Stack.v, and the ownership invariant:
   every registry entry belongs to a connected peer and to an entity of its current tree.
   Shared by the proofs of C03, C08, C09, C10. *)
From Verif Require Import Base.Prelude Model.Stack Spec.StackObs Proofs.StackLemmas.

Lemma results_app a b : results (a ++ b) = results a ++ results b.
Proof. unfold results. apply flat_map_app. Qed.

Lemma filter_all {A} (P : A -> bool) l : (forall x, In x l -> P x = true) -> filter P l = l.
Proof.
  induction l as [|x l IH]; simpl; intros H; [reflexivity|].
  rewrite (H x (or_introl eq_refl)). f_equal. apply IH. intros y Hy. apply H. now right.
Qed.

Lemma filter_none {A} (P : A -> bool) l : (forall x, In x l -> P x = false) -> filter P l = [].
Proof.
  induction l as [|x l IH]; simpl; intros H; [reflexivity|].
  rewrite (H x (or_introl eq_refl)). apply IH. intros y Hy. apply H. now right.
Qed.

Lemma existsb_none {A} (P : A -> bool) l : (forall x, In x l -> P x = false) -> existsb P l = false.
Proof.
  induction l as [|x l IH]; simpl; intros H; [reflexivity|].
  rewrite (H x (or_introl eq_refl)). apply IH. intros y Hy. apply H. now right.
Qed.


Lemma find_app' {A} (f : A -> bool) (l1 l2 : list A) :
  find f (l1 ++ l2) = match find f l1 with Some x => Some x | None => find f l2 end.
Proof. induction l1 as [|x l IH]; simpl; [reflexivity|]. destruct (f x); [reflexivity | exact IH]. Qed.

Lemma NoDup_snoc {A} (l : list A) x : NoDup l -> ~ In x l -> NoDup (l ++ [x]).
Proof.
  induction l as [|y l IH]; simpl; intros Hd Hn; [constructor; [tauto | constructor]|].
  inversion Hd as [|? ? Hy Hl]; subst. constructor.
  - intros Hin. apply in_app_or in Hin. destruct Hin as [Hin|[E|[]]]; [tauto | subst; tauto].
  - apply IH; tauto.
Qed.

Lemma sublist_ids (P : entry -> bool) l : NoDup (map e_id l) -> NoDup (map e_id (filter P l)).
Proof.
  induction l as [|x l IH]; simpl; intros H; [constructor|].
  inversion H as [|? ? Hn Hd]; subst. destruct (P x); simpl; [|auto].
  constructor; [|auto]. intros Hin. apply Hn. apply in_map_iff in Hin. destruct Hin as [y [Hy Hin]].
  apply in_map_iff. exists y. split; [exact Hy|]. apply filter_In in Hin. tauto.
Qed.

Definition owner_ok (s : st) (e : entry) : Prop :=
  exists pe en, find_peer s (e_ski e) = Some pe /\ find_rent pe (fa_ent (e_cli e)) = Some en.

(* both registries *)
Definition RegOK (s : st) : Prop :=
  (forall e, In e (subs s) -> owner_ok s e) /\ (forall e, In e (binds s) -> owner_ok s e).

(* ---------- teardown effects ---------- *)
Definition gone_of (evs : list obs) : list eaddr :=
  flat_map (fun x => match x with OEvent EvEntity ChRemove _ (Some e) _ _ => [e] | _ => [] end) evs.

Definition drop (p : N) (g : list eaddr) (l : list entry) : list entry :=
  filter (fun x => negb (N.eqb (e_ski x) p && existsb (eqb_eaddr (fa_ent (e_cli x))) g)) l.

Lemma gone_of_app a b : gone_of (a ++ b) = gone_of a ++ gone_of b.
Proof. unfold gone_of. apply flat_map_app. Qed.

Lemma drop_nil p l : drop p [] l = l.
Proof. unfold drop. apply filter_all. intros x _. simpl. rewrite andb_false_r. reflexivity. Qed.

Lemma filter_filter {A} (P Q : A -> bool) l : filter P (filter Q l) = filter (fun x => Q x && P x) l.
Proof.
  induction l as [|x l IH]; simpl; [reflexivity|].
  destruct (Q x); simpl; [destruct (P x); rewrite IH; reflexivity | exact IH].
Qed.

Lemma filter_ext' {A} (P Q : A -> bool) l : (forall x, P x = Q x) -> filter P l = filter Q l.
Proof. intros H. induction l as [|x l IH]; simpl; [reflexivity|]. rewrite H, IH. reflexivity. Qed.

Lemma drop_app p g1 g2 l : drop p (g1 ++ g2) l = drop p g2 (drop p g1 l).
Proof.
  unfold drop. rewrite filter_filter. apply filter_ext'. intros x.
  rewrite existsb_app. destruct (N.eqb (e_ski x) p); simpl; [|reflexivity].
  destruct (existsb _ g1); reflexivity.
Qed.

Lemma drop_one pe en l : filter (fun x => negb (entity_match pe en x)) l = drop (p_ski pe) [re_addr en] l.
Proof. unfold drop. apply filter_ext'. intros x. unfold entity_match. simpl. rewrite orb_false_r. reflexivity. Qed.

(* events that carry no result, no notification, no entity removal *)
Definition quiet_evs (evs : list obs) : Prop :=
  existsb is_notify evs = false /\ results evs = [] /\ gone_of evs = [].

Lemma quiet_evs_nil : quiet_evs [].
Proof. repeat split. Qed.

Lemma quiet_evs_app a b : quiet_evs a -> quiet_evs b -> quiet_evs (a ++ b).
Proof.
  intros [A1 [A2 A3]] [B1 [B2 B3]]. split; [rewrite existsb_app, A1, B1; reflexivity|].
  split; [rewrite results_app, A2, B2 | rewrite gone_of_app, A3, B3]; reflexivity.
Qed.

Lemma evs_removed_quiet k s pe en l : k <> EvEntity -> quiet_evs (map (ev_removed k s pe en) l).
Proof.
  intros Hk. induction l as [|x l [IH1 [IH2 IH3]]]; [apply quiet_evs_nil|].
  split; [exact IH1|]. split; [exact IH2|]. destruct k; try exact IH3. contradiction.
Qed.

(* the registry part of a state *)
Record regs_eq (s s1 : st) (fs fb : list entry -> list entry) : Prop := {
  re_subs : subs s1 = fs (subs s); re_nsub : next_sub s1 = next_sub s;
  re_binds : binds s1 = fb (binds s); re_nbind : next_bind s1 = next_bind s
}.

Lemma remove_for_entity_spec s pe en :
  let '(s', evs) := remove_for_entity s pe en in
  regs_eq s s' (drop (p_ski pe) [re_addr en]) (drop (p_ski pe) [re_addr en]) /\ peers s' = peers s /\ quiet_evs evs.
Proof.
  unfold remove_for_entity. simpl. split; [|split; [reflexivity|]].
  - constructor; simpl; try reflexivity; apply drop_one.
  - apply quiet_evs_app; apply evs_removed_quiet; discriminate.
Qed.

Lemma clean_entity_caches_frame s d a :
  regs_eq s (clean_entity_caches s d a) (fun l => l) (fun l => l) /\ peers (clean_entity_caches s d a) = peers s.
Proof. unfold clean_entity_caches. destruct d; simpl; split; try constructor; reflexivity. Qed.

Lemma owner_peers s s1 e : peers s1 = peers s -> owner_ok s e -> owner_ok s1 e.
Proof. unfold owner_ok, find_peer. intros ->. tauto. Qed.

Lemma find_rent_filter pe a e :
  e <> a ->
  find_rent {| p_ski := p_ski pe; p_addr := p_addr pe;
               p_ents := filter (fun x => negb (eqb_eaddr (re_addr x) a)) (p_ents pe) |} e = find_rent pe e.
Proof.
  intros Hne. unfold find_rent. simpl. induction (p_ents pe) as [|x l IH]; simpl; [reflexivity|].
  destruct (eqb_eaddr (re_addr x) a) eqn:Ea; simpl.
  - destruct (eqb_eaddr (re_addr x) e) eqn:Ee; [|exact IH].
    apply eqb_eaddr_eq in Ea, Ee. congruence.
  - destruct (eqb_eaddr (re_addr x) e); [reflexivity | exact IH].
Qed.

(* an entry that survives the removal of entity [a] of peer [pe] keeps an owner *)
Lemma owner_survives s p pe a en e :
  find_peer s p = Some pe -> find_rent pe a = Some en -> owner_ok s e ->
  negb (N.eqb (e_ski e) p && existsb (eqb_eaddr (fa_ent (e_cli e))) [a]) = true ->
  forall s3, peers s3 = peers (set_peer s {| p_ski := p_ski pe; p_addr := p_addr pe;
                                           p_ents := filter (fun x => negb (eqb_eaddr (re_addr x) a)) (p_ents pe) |}) ->
  owner_ok s3 e.
Proof.
  intros Ep Een [pe' [en' [Hf Hr']]] Hm s3 Hp3.
  pose proof (find_peer_ski _ _ _ Ep) as Hski.
  unfold owner_ok, find_peer. rewrite Hp3.
  match goal with |- context [set_peer s ?x] => set (pe1 := x) end.
  fold (find_peer (set_peer s pe1) (e_ski e)).
  rewrite find_peer_set_peer, Hf. simpl p_ski. simpl in Hm.
  destruct (N.eqb_spec (e_ski e) (p_ski pe)) as [E|E].
  - exists pe1. assert (pe' = pe) by congruence. subst pe'.
    assert (E2 : (e_ski e =? p)%N = true) by (apply N.eqb_eq; congruence). rewrite E2 in Hm.
    destruct (eqb_eaddr (fa_ent (e_cli e)) a) eqn:Ea; [simpl in Hm; discriminate|].
    exists en'. split; [reflexivity|]. unfold pe1. rewrite find_rent_filter; [exact Hr'|].
    intros Hx. rewrite Hx, eqb_eaddr_refl in Ea. discriminate.
  - exists pe', en'. split; [reflexivity | exact Hr'].
Qed.

Lemma regs_eq_refl s p : regs_eq s s (drop p []) (drop p []).
Proof. constructor; rewrite ?drop_nil; reflexivity. Qed.

Lemma remove_entity_unfold s p a :
  remove_entity s p a =
  match find_peer s p with
  | None => (s, [])
  | Some pe =>
      match find_rent pe a with
      | None => (s, [])
      | Some en =>
          let pe1 := {| p_ski := p_ski pe; p_addr := p_addr pe;
                        p_ents := filter (fun x => negb (eqb_eaddr (re_addr x) a)) (p_ents pe) |} in
          let s1 := set_peer s pe1 in
          let '(s2, evs) := remove_for_entity s1 pe1 en in
          (clean_entity_caches s2 (p_addr pe) a, ev_entity ChRemove pe (re_addr en) :: evs)
      end
  end.
Proof. reflexivity. Qed.

(* NodeManagement.removeRemoteEntity *)
Lemma remove_entity_spec s p a s' evs :
  RegOK s -> remove_entity s p a = (s', evs) ->
  RegOK s' /\ regs_eq s s' (drop p (gone_of evs)) (drop p (gone_of evs)) /\
  existsb is_notify evs = false /\ results evs = [] /\ (gone_of evs = [] \/ gone_of evs = [a]).
Proof.
  intros Hok H. rewrite remove_entity_unfold in H.
  destruct (find_peer s p) as [pe|] eqn:Ep.
  2:{ inversion H; subst. split; [exact Hok|]. split; [apply regs_eq_refl | repeat split; auto]. }
  destruct (find_rent pe a) as [en|] eqn:Een.
  2:{ inversion H; subst. split; [exact Hok|]. split; [apply regs_eq_refl | repeat split; auto]. }
  cbv zeta in H.
  set (pe1 := {| p_ski := p_ski pe; p_addr := p_addr pe;
                 p_ents := filter (fun x => negb (eqb_eaddr (re_addr x) a)) (p_ents pe) |}) in *.
  pose proof (remove_for_entity_spec (set_peer s pe1) pe1 en) as Hr.
  destruct (remove_for_entity (set_peer s pe1) pe1 en) as [s2 evs1].
  destruct Hr as [[Hs2 Hn2 Hb2 Hnb2] [Hp2 [Hq [Hres Hg]]]].
  destruct (clean_entity_caches_frame s2 (p_addr pe) a) as [[Hs3 Hn3 Hb3 Hnb3] Hp3].
  injection H as H1 H2. subst s' evs.
  pose proof (find_peer_ski _ _ _ Ep) as Hski.
  pose proof (find_rent_addr _ _ _ Een) as Haddr.
  assert (Hp3' : peers (clean_entity_caches s2 (p_addr pe) a) = peers (set_peer s pe1)) by (rewrite Hp3, Hp2; reflexivity).
  assert (Hgone : gone_of (ev_entity ChRemove pe (re_addr en) :: evs1) = [a]).
  { change (gone_of (ev_entity ChRemove pe (re_addr en) :: evs1)) with (re_addr en :: gone_of evs1).
    rewrite Hg, Haddr. reflexivity. }
  rewrite Hgone. split; [|split; [|split; [|split]]].
  - destruct Hok as [HokS HokB]. split; intros e He.
    + rewrite Hs3, Hs2 in He. simpl in He. unfold drop in He. apply filter_In in He. destruct He as [He Hm].
      simpl p_ski in Hm. rewrite Hski, Haddr in Hm.
      exact (owner_survives s p pe a en e Ep Een (HokS e He) Hm _ Hp3').
    + rewrite Hb3, Hb2 in He. simpl in He. unfold drop in He. apply filter_In in He. destruct He as [He Hm].
      simpl p_ski in Hm. rewrite Hski, Haddr in Hm.
      exact (owner_survives s p pe a en e Ep Een (HokB e He) Hm _ Hp3').
  - constructor.
    + rewrite Hs3, Hs2. simpl subs. simpl p_ski. rewrite Hski, Haddr. reflexivity.
    + rewrite Hn3, Hn2. reflexivity.
    + rewrite Hb3, Hb2. simpl binds. simpl p_ski. rewrite Hski, Haddr. reflexivity.
    + rewrite Hnb3, Hnb2. reflexivity.
  - simpl. exact Hq.
  - exact Hres.
  - right. reflexivity.
Qed.

Lemma regs_eq_trans s s1 s2 p g1 g2 :
  regs_eq s s1 (drop p g1) (drop p g1) -> regs_eq s1 s2 (drop p g2) (drop p g2) ->
  regs_eq s s2 (drop p (g1 ++ g2)) (drop p (g1 ++ g2)).
Proof.
  intros [A1 A2 A3 A4] [B1 B2 B3 B4]. constructor.
  - rewrite B1, A1, drop_app. reflexivity.
  - congruence.
  - rewrite B3, A3, drop_app. reflexivity.
  - congruence.
Qed.

Lemma remove_unlisted_spec listed es : forall s p s' evs,
  RegOK s -> remove_unlisted s p listed es = (s', evs) ->
  RegOK s' /\ regs_eq s s' (drop p (gone_of evs)) (drop p (gone_of evs)) /\
  existsb is_notify evs = false /\ results evs = [].
Proof.
  induction es as [|a r IH]; intros s p s' evs Hok H.
  - simpl in H. inversion H; subst. split; [exact Hok|]. split; [apply regs_eq_refl | split; reflexivity].
  - simpl in H. destruct (existsb (eqb_eaddr a) listed || eqb_eaddr a [0%N]); [exact (IH _ _ _ _ Hok H)|].
    destruct (remove_entity s p a) as [s1 evs1] eqn:E1.
    destruct (remove_entity_spec _ _ _ _ _ Hok E1) as [Hok1 [Hr1 [Hq1 [Hres1 _]]]].
    destruct (remove_unlisted s1 p listed r) as [s2 evs2] eqn:E2.
    destruct (IH _ _ _ _ Hok1 E2) as [Hok2 [Hr2 [Hq2 Hres2]]].
    injection H as H1 H2. subst s' evs.
    split; [exact Hok2|]. split; [|split].
    + rewrite gone_of_app. exact (regs_eq_trans _ _ _ _ _ _ Hr1 Hr2).
    + rewrite existsb_app, Hq1, Hq2. reflexivity.
    + rewrite results_app, Hres1, Hres2. reflexivity.
Qed.

Lemma RegOK_set_peer_add' s p pe pe0 m l :
  find_peer s p = Some pe -> p_ski pe0 = p_ski pe -> p_ents pe0 = p_ents pe ->
  RegOK s -> RegOK (set_peer s (fst (add_entities pe0 m l))).
Proof.
  intros Hp Hs0 He0 Hok.
  assert (G : forall e, owner_ok s e -> owner_ok (set_peer s (fst (add_entities pe0 m l))) e).
  { intros e [pe' [en' [Hf Hr]]].
    unfold owner_ok. rewrite find_peer_set_peer, Hf, add_entities_ski, Hs0.
    destruct (N.eqb_spec (e_ski e) (p_ski pe)) as [E|E]; [|eauto].
    pose proof (find_peer_ski _ _ _ Hp) as Hski.
    assert (pe' = pe) by congruence. subst pe'.
    assert (Hh : has_rent pe0 (fa_ent (e_cli e)) = true).
    { unfold has_rent. rewrite He0. apply has_rent_find. eauto. }
    apply (add_entities_keeps pe0 m l) in Hh. apply has_rent_find in Hh. destruct Hh as [en2 Hen2]. eauto. }
  destruct Hok as [HokS HokB]. split; intros e He; apply G; [apply HokS | apply HokB]; exact He.
Qed.

Lemma RegOK_set_peer_add s p pe m l :
  find_peer s p = Some pe -> RegOK s -> RegOK (set_peer s (fst (add_entities pe m l))).
Proof. intros Hp. apply (RegOK_set_peer_add' s p pe pe m l Hp); reflexivity. Qed.

Lemma gone_of_added pe l : gone_of (map (ev_entity ChAdd pe) l) = [].
Proof. induction l as [|x l IH]; simpl; [reflexivity | exact IH]. Qed.

Lemma quiet_added pe l :
  existsb is_notify (map (ev_entity ChAdd pe) l) = false /\ results (map (ev_entity ChAdd pe) l) = [].
Proof. induction l as [|x l [IH1 IH2]]; simpl; split; auto. Qed.

Lemma notify_entries_cons s p m de r :
  notify_entries s p m (de :: r) =
  match de_state de, find_peer s p with
  | None, _ => (s, [], true)
  | Some _, None => (s, [], true)
  | Some SAdded, Some pe =>
      if negb (check_entity pe de) then (s, [], true) else
      let '(pe1, created) := add_entities pe m [de] in
      let '(s2, evs, err) := notify_entries (set_peer s pe1) p m r in
      (s2, map (ev_entity ChAdd pe) created ++ evs, err)
  | Some SRemoved, Some pe =>
      if negb (check_removed pe de) then (s, [], true) else
      let '(s1, evs) := remove_entity s p (de_addr de) in
      let '(s2, evs2, err) := notify_entries s1 p m r in
      (s2, evs ++ evs2, err)
  end.
Proof. reflexivity. Qed.

Lemma notify_entries_spec l : forall s p m s' evs err,
  RegOK s -> notify_entries s p m l = (s', evs, err) ->
  RegOK s' /\ regs_eq s s' (drop p (gone_of evs)) (drop p (gone_of evs)) /\
  existsb is_notify evs = false /\ results evs = [].
Proof.
  induction l as [|de r IH]; intros s p m s' evs err Hok H.
  - simpl in H. inversion H; subst. split; [exact Hok|]. split; [apply regs_eq_refl | split; reflexivity].
  - rewrite notify_entries_cons in H.
    destruct (de_state de) as [[|]|]; [| |inversion H; subst; split; [exact Hok|]; split; [apply regs_eq_refl | split; reflexivity]].
    + (* added *)
      destruct (find_peer s p) as [pe|] eqn:Ep.
      2:{ inversion H; subst. split; [exact Hok|]. split; [apply regs_eq_refl | split; reflexivity]. }
      destruct (check_entity pe de); cbn [negb] in H.
      2:{ inversion H; subst. split; [exact Hok|]. split; [apply regs_eq_refl | split; reflexivity]. }
      pose proof (RegOK_set_peer_add s p pe m [de] Ep Hok) as Hok1.
      destruct (add_entities pe m [de]) as [pe1 created]. simpl fst in Hok1.
      destruct (notify_entries (set_peer s pe1) p m r) as [[s2 evs2] err2] eqn:Er.
      injection H as H1 H2 H3. subst s' evs err.
      destruct (IH _ _ _ _ _ _ Hok1 Er) as [Hok2 [[Hs2 Hn2 Hb2 Hnb2] [Hq2 Hr2]]].
      destruct (quiet_added pe created) as [Hqa Hra].
      split; [exact Hok2|]. split; [|split].
      * rewrite gone_of_app, gone_of_added. constructor; simpl; assumption.
      * rewrite existsb_app, Hqa, Hq2. reflexivity.
      * rewrite results_app, Hra, Hr2. reflexivity.
    + (* removed *)
      destruct (find_peer s p) as [pe|] eqn:Ep.
      2:{ inversion H; subst. split; [exact Hok|]. split; [apply regs_eq_refl | split; reflexivity]. }
      destruct (check_removed pe de); cbn [negb] in H.
      2:{ inversion H; subst. split; [exact Hok|]. split; [apply regs_eq_refl | split; reflexivity]. }
      destruct (remove_entity s p (de_addr de)) as [s1 evs1] eqn:E1.
      destruct (remove_entity_spec _ _ _ _ _ Hok E1) as [Hok1 [Hr1 [Hq1 [Hres1 _]]]].
      destruct (notify_entries s1 p m r) as [[s2 evs2] err2] eqn:Er.
      injection H as H1 H2 H3. subst s' evs err.
      destruct (IH _ _ _ _ _ _ Hok1 Er) as [Hok2 [Hr2 [Hq2 Hres2]]].
      split; [exact Hok2|]. split; [|split].
      * rewrite gone_of_app. exact (regs_eq_trans _ _ _ _ _ _ Hr1 Hr2).
      * rewrite existsb_app, Hq1, Hq2. reflexivity.
      * rewrite results_app, Hres1, Hres2. reflexivity.
Qed.

(* ---------- disconnect ---------- *)
Definition F1 (pe : peer) := (fun (acc : st * list obs) (en : rent) =>
                      let '(sa, ea) := acc in
                      let gone := filter (entity_match pe en) (subs sa) in
                      (set_subs sa (filter (fun x => negb (entity_match pe en x)) (subs sa)) (next_sub sa),
                       ea ++ map (ev_removed EvSub sa pe en) gone)).
Definition F2 (pe : peer) := (fun (acc : st * list obs) (en : rent) =>
               let '(sa, ea) := acc in
               let gone := filter (entity_match pe en) (binds sa) in
               (set_binds sa (filter (fun x => negb (entity_match pe en x)) (binds sa)) (next_bind sa),
                ea ++ map (ev_removed EvBind sa pe en) gone)).

Lemma remove_all_unfold s pe :
  remove_all_for_device s pe = fold_left (F2 pe) (p_ents pe) (fold_left (F1 pe) (p_ents pe) (s, [])).
Proof. unfold remove_all_for_device. destruct (fold_left _ (p_ents pe) (s, [])) as [s1 ev1]. reflexivity. Qed.

Lemma fold_F1 pe ents : forall sa ea,
  quiet_evs ea ->
  let '(s1, ev1) := fold_left (F1 pe) ents (sa, ea) in
  regs_eq sa s1 (drop (p_ski pe) (map re_addr ents)) (fun l => l) /\
  peers s1 = peers sa /\ lfeats s1 = lfeats sa /\ lents s1 = lents sa /\ quiet_evs ev1.
Proof.
  induction ents as [|en r IH]; intros sa ea Hq; simpl.
  - split; [constructor; rewrite ?drop_nil; reflexivity | auto].
  - match goal with |- context [fold_left (F1 pe) r (?s0, ?e0)] =>
      assert (Hq' : quiet_evs e0) by (apply quiet_evs_app; [exact Hq | apply evs_removed_quiet; discriminate]);
      specialize (IH s0 e0 Hq'); destruct (fold_left (F1 pe) r (s0, e0)) as [s1 ev1] end.
    destruct IH as [[H1 H2 H3 H4] [H5 [H6 [H7 H8]]]].
    simpl in *. split; [|auto]. constructor; try assumption.
    rewrite H1. change (re_addr en :: map re_addr r) with ([re_addr en] ++ map re_addr r).
    rewrite drop_app. f_equal. apply drop_one.
Qed.

Lemma fold_F2 pe ents : forall sa ea,
  quiet_evs ea ->
  let '(s1, ev1) := fold_left (F2 pe) ents (sa, ea) in
  regs_eq sa s1 (fun l => l) (drop (p_ski pe) (map re_addr ents)) /\
  peers s1 = peers sa /\ lfeats s1 = lfeats sa /\ lents s1 = lents sa /\ quiet_evs ev1.
Proof.
  induction ents as [|en r IH]; intros sa ea Hq; simpl.
  - split; [constructor; rewrite ?drop_nil; reflexivity | auto].
  - match goal with |- context [fold_left (F2 pe) r (?s0, ?e0)] =>
      assert (Hq' : quiet_evs e0) by (apply quiet_evs_app; [exact Hq | apply evs_removed_quiet; discriminate]);
      specialize (IH s0 e0 Hq'); destruct (fold_left (F2 pe) r (s0, e0)) as [s1 ev1] end.
    destruct IH as [[H1 H2 H3 H4] [H5 [H6 [H7 H8]]]].
    simpl in *. split; [|auto]. constructor; try assumption.
    rewrite H3. change (re_addr en :: map re_addr r) with ([re_addr en] ++ map re_addr r).
    rewrite drop_app. f_equal. apply drop_one.
Qed.

Lemma find_filter_other (l : list peer) p q :
  q <> p -> find (fun x => N.eqb (p_ski x) q) (filter (fun x => negb (N.eqb (p_ski x) p)) l) =
            find (fun x => N.eqb (p_ski x) q) l.
Proof.
  intros Hne. induction l as [|x l IH]; simpl; [reflexivity|].
  destruct (N.eqb_spec (p_ski x) p) as [E|E]; simpl.
  - destruct (N.eqb_spec (p_ski x) q); [congruence | exact IH].
  - destruct (N.eqb (p_ski x) q); [reflexivity | exact IH].
Qed.

Lemma drop_all_of_peer s p pe l :
  find_peer s p = Some pe -> (forall e, In e l -> owner_ok s e) ->
  drop p (map re_addr (p_ents pe)) l = filter (fun x => negb (N.eqb (e_ski x) p)) l.
Proof.
  intros Ep. unfold drop. induction l as [|x l IHl]; intros Hok; simpl; [reflexivity|].
  assert (Hx : owner_ok s x) by (apply Hok; now left).
  assert (Hl : forall e, In e l -> owner_ok s e) by (intros e He; apply Hok; now right).
  destruct (N.eqb_spec (e_ski x) p) as [E|E]; simpl.
  - destruct Hx as [pe' [en' [Hf Hr]]]. rewrite E, Ep in Hf. inversion Hf; subst pe'.
    assert (Hex : existsb (eqb_eaddr (fa_ent (e_cli x))) (map re_addr (p_ents pe)) = true).
    { apply existsb_exists. exists (re_addr en'). split.
      - apply in_map. unfold find_rent in Hr. apply find_some in Hr. tauto.
      - rewrite (find_rent_addr _ _ _ Hr). apply eqb_eaddr_refl. }
    rewrite Hex. simpl. apply IHl. exact Hl.
  - f_equal. apply IHl. exact Hl.
Qed.

Definition not_of (p : N) (l : list entry) : list entry := filter (fun x => negb (N.eqb (e_ski x) p)) l.

Lemma clean_device_caches_frame s d :
  regs_eq s (clean_device_caches s d) (fun l => l) (fun l => l) /\ peers (clean_device_caches s d) = peers s /\
  lents (clean_device_caches s d) = lents s.
Proof. unfold clean_device_caches. destruct d; simpl; split; try constructor; try split; reflexivity. Qed.

Lemma disconnect_spec s p :
  RegOK s ->
  let '(s1, evs) := disconnect s p in
  regs_eq s s1 (not_of p) (not_of p) /\
  RegOK s1 /\ find_peer s1 p = None /\ (forall q, q <> p -> find_peer s1 q = find_peer s q) /\
  existsb is_notify evs = false /\ results evs = [] /\ lents s1 = lents s.
Proof.
  intros Hok. unfold disconnect. destruct (find_peer s p) as [pe|] eqn:Ep.
  - rewrite remove_all_unfold.
    pose proof (fold_F1 pe (p_ents pe) s [] quiet_evs_nil) as H1.
    destruct (fold_left (F1 pe) (p_ents pe) (s, [])) as [s1 ev1].
    destruct H1 as [[Hs1 Hn1 Hb1 Hnb1] [Hp1 [Hlf1 [Hle1 Hq1]]]].
    pose proof (fold_F2 pe (p_ents pe) s1 ev1 Hq1) as H2.
    destruct (fold_left (F2 pe) (p_ents pe) (s1, ev1)) as [s2 ev2].
    destruct H2 as [[Hs2 Hn2 Hb2 Hnb2] [Hp2 [Hlf2 [Hle2 [Hq2 [Hr2 Hg2]]]]]].
    pose proof (find_peer_ski _ _ _ Ep) as Hski. destruct Hok as [HokS HokB].
    set (s3 := {| lents := lents s2; lfeats := lfeats s2; peers := filter (fun x => negb (N.eqb (p_ski x) p)) (peers s2);
                  subs := subs s2; next_sub := next_sub s2; binds := binds s2; next_bind := next_bind s2 |}).
    destruct (clean_device_caches_frame s3 (p_addr pe)) as [[Hs4 Hn4 Hb4 Hnb4] [Hp4 Hle4]].
    assert (Hsubs : subs (clean_device_caches s3 (p_addr pe)) = not_of p (subs s)).
    { rewrite Hs4. simpl. rewrite Hs2, Hs1, Hski. apply (drop_all_of_peer s p pe); assumption. }
    assert (Hbinds : binds (clean_device_caches s3 (p_addr pe)) = not_of p (binds s)).
    { rewrite Hb4. simpl. rewrite Hb2, Hb1, Hski. apply (drop_all_of_peer s p pe); assumption. }
    assert (Hfind : forall q, q <> p -> find_peer (clean_device_caches s3 (p_addr pe)) q = find_peer s q).
    { intros q Hq. unfold find_peer. rewrite Hp4. simpl. rewrite find_filter_other by exact Hq. rewrite Hp2, Hp1. reflexivity. }
    split; [constructor; [exact Hsubs | rewrite Hn4; simpl; congruence | exact Hbinds | rewrite Hnb4; simpl; congruence]|].
    split; [|split; [|split; [exact Hfind|]]].
    + assert (G : forall l x, (forall e, In e l -> owner_ok s e) -> In x (not_of p l) -> owner_ok (clean_device_caches s3 (p_addr pe)) x).
      { intros l x Hl Hx. unfold not_of in Hx. apply filter_In in Hx. destruct Hx as [Hx Hm].
        destruct (N.eqb_spec (e_ski x) p) as [E|E]; [discriminate|].
        destruct (Hl x Hx) as [pe' [en' [Hf Hr]]]. exists pe', en'. split; [|exact Hr].
        rewrite Hfind by exact E. exact Hf. }
      split; intros x Hx; [rewrite Hsubs in Hx; exact (G _ x HokS Hx) | rewrite Hbinds in Hx; exact (G _ x HokB Hx)].
    + unfold find_peer. rewrite Hp4. simpl. destruct (find _ _) as [y|] eqn:Ef; [|reflexivity].
      apply find_some in Ef. destruct Ef as [Hin Hy]. apply filter_In in Hin. destruct Hin as [_ Hn].
      rewrite Hy in Hn. discriminate.
    + split; [|split].
      * rewrite existsb_app, Hq2. reflexivity.
      * rewrite results_app, Hr2. reflexivity.
      * rewrite Hle4. simpl. congruence.
  - assert (G : forall l, (forall e, In e l -> owner_ok s e) -> l = not_of p l).
    { intros l Hl. symmetry. apply filter_all. intros x Hx. destruct (Hl x Hx) as [pe' [en' [Hf _]]].
      destruct (N.eqb_spec (e_ski x) p) as [E|E]; [|reflexivity]. rewrite E, Ep in Hf. discriminate. }
    destruct Hok as [HokS HokB].
    split; [constructor; [apply G; exact HokS | reflexivity | apply G; exact HokB | reflexivity]|].
    split; [split; assumption|]. split; [exact Ep|]. split; [reflexivity|]. split; [reflexivity|]. split; reflexivity.
Qed.

(* ---------- effects of the registry handlers ---------- *)
Definition mk_entry (id : N) (sf : lfeat) (ski : N) (cli : faddr) : entry :=
  {| e_id := id; e_srv := (lf_ent sf, lf_id sf); e_ski := ski; e_cli := cli |}.

Lemma add_subscription_effect s pe c :
  let '(s1, evs, err) := add_subscription s pe c in
  binds s1 = binds s /\ next_bind s1 = next_bind s /\ peers s1 = peers s /\ lents s1 = lents s /\ lfeats s1 = lfeats s /\
  ((subs s1 = subs s /\ (next_sub s <= next_sub s1)%N) \/
   (exists en sf cli, subs s1 = subs s ++ [mk_entry (N.succ (next_sub s)) sf (p_ski pe) cli] /\
                      next_sub s1 = N.succ (next_sub s) /\ find_rent pe (fa_ent cli) = Some en)).
Proof.
  unfold add_subscription.
  destruct (local_feature s (rc_srv c)) as [sf|]; [|simpl; repeat split; try reflexivity; left; split; [reflexivity | lia]].
  destruct (rc_type c) as [t|]; [|simpl; repeat split; try reflexivity; left; split; [reflexivity | lia]].
  destruct (negb (role_type_ok (lf_role sf) (lf_type sf) RServer t));
    [simpl; repeat split; try reflexivity; left; split; [reflexivity | lia]|].
  destruct (remote_feature pe (rc_cli c)) as [[en rf]|] eqn:Erf;
    [|simpl; repeat split; try reflexivity; left; split; [reflexivity | lia]].
  destruct (negb (role_type_ok (rf_role rf) (rf_type rf) RClient t));
    [simpl; repeat split; try reflexivity; left; split; [reflexivity | lia]|].
  cbv zeta. destruct (existsb _ (subs s)); simpl; repeat split; try reflexivity.
  - left. split; [reflexivity | lia].
  - right. exists en, sf, (rf_addr en rf). split; [reflexivity|]. split; [reflexivity|].
    simpl. apply remote_feature_rent in Erf. rewrite <- (find_rent_addr _ _ _ Erf) in Erf. exact Erf.
Qed.

Lemma add_binding_effect s pe c :
  let '(s1, evs, err) := add_binding s pe c in
  subs s1 = subs s /\ next_sub s1 = next_sub s /\ peers s1 = peers s /\ lents s1 = lents s /\ lfeats s1 = lfeats s /\
  ((binds s1 = binds s /\ next_bind s1 = next_bind s) \/
   (exists en sf cli, binds s1 = binds s ++ [mk_entry (N.succ (next_bind s)) sf (p_ski pe) cli] /\
                      next_bind s1 = N.succ (next_bind s) /\ find_rent pe (fa_ent cli) = Some en /\
                      bindings_on s sf = [])).
Proof.
  unfold add_binding.
  destruct (local_feature s (rc_srv c)) as [sf|]; [|simpl; repeat split; try reflexivity; left; split; reflexivity].
  destruct (rc_type c) as [t|]; [|simpl; repeat split; try reflexivity; left; split; reflexivity].
  destruct (negb (role_type_ok (lf_role sf) (lf_type sf) RServer t));
    [simpl; repeat split; try reflexivity; left; split; reflexivity|].
  destruct (bindings_on s sf) eqn:Eb; [|simpl; repeat split; try reflexivity; left; split; reflexivity].
  destruct (remote_feature pe (rc_cli c)) as [[en rf]|] eqn:Erf;
    [|simpl; repeat split; try reflexivity; left; split; reflexivity].
  destruct (negb (role_type_ok (rf_role rf) (rf_type rf) RClient t));
    [simpl; repeat split; try reflexivity; left; split; reflexivity|].
  simpl; repeat split; try reflexivity.
  right. exists en, sf, (rf_addr en rf). split; [reflexivity|]. split; [reflexivity|]. split; [|exact Eb].
  simpl. apply remote_feature_rent in Erf. rewrite <- (find_rent_addr _ _ _ Erf) in Erf. exact Erf.
Qed.

Lemma remove_subscription_effect s pe c :
  let '(s1, evs, err) := remove_subscription s pe c in
  binds s1 = binds s /\ next_bind s1 = next_bind s /\ peers s1 = peers s /\ next_sub s1 = next_sub s /\
  lents s1 = lents s /\ lfeats s1 = lfeats s /\ exists P, subs s1 = filter P (subs s).
Proof.
  unfold remove_subscription.
  assert (G : exists P, subs s = filter P (subs s)) by (exists (fun _ => true); symmetry; apply filter_all; reflexivity).
  destruct (remote_feature pe (rc_cli c)) as [[en rf]|]; [|simpl; repeat split; try reflexivity; exact G].
  destruct (local_feature s (rc_srv c)) as [sf|]; [|simpl; repeat split; try reflexivity; exact G].
  cbv zeta. destruct (Nat.eqb _ _); simpl; repeat split; try reflexivity; [exact G | eexists; reflexivity].
Qed.

Lemma remove_binding_effect s pe c :
  let '(s1, evs, err) := remove_binding s pe c in
  subs s1 = subs s /\ next_sub s1 = next_sub s /\ peers s1 = peers s /\ next_bind s1 = next_bind s /\
  lents s1 = lents s /\ lfeats s1 = lfeats s /\ exists P, binds s1 = filter P (binds s).
Proof.
  unfold remove_binding.
  assert (G : exists P, binds s = filter P (binds s)) by (exists (fun _ => true); symmetry; apply filter_all; reflexivity).
  destruct (remote_feature pe (rc_cli c)) as [[en rf]|]; [|simpl; repeat split; try reflexivity; exact G].
  destruct (local_feature s (rc_srv c)) as [sf|]; [|simpl; repeat split; try reflexivity; exact G].
  destruct (negb (role_type_ok (lf_role sf) (lf_type sf) RServer (lf_type sf))); [simpl; repeat split; try reflexivity; exact G|].
  destruct (negb (has_binding s sf (rf_addr en rf))); [simpl; repeat split; try reflexivity; exact G|].
  cbv zeta. destruct (Nat.eqb _ _); simpl; repeat split; try reflexivity; [exact G | eexists; reflexivity].
Qed.

(* ---------- the invariants are preserved by every operation ---------- *)
Definition IdsOK (s : st) : Prop :=
  (forall e, In e (subs s) -> (e_id e <= next_sub s)%N) /\ NoDup (map e_id (subs s)) /\
  (forall e, In e (binds s) -> (e_id e <= next_bind s)%N) /\ NoDup (map e_id (binds s)).

(* how one step changes the two registries: entries are only dropped, or one fresh owned entry is appended *)
Inductive reg_change (nxt : N) (l : list entry) (owner : entry -> Prop) : list entry -> N -> Prop :=
| rc_filter P : reg_change nxt l owner (filter P l) nxt
| rc_mapf f P : (forall x, e_id (f x) = e_id x) -> reg_change nxt l owner (filter P (map f l)) nxt
| rc_bump n : (nxt <= n)%N -> reg_change nxt l owner l n
| rc_add e : e_id e = N.succ nxt -> owner e -> reg_change nxt l owner (l ++ [e]) (N.succ nxt).

Lemma reg_change_ids nxt l owner l1 n1 :
  reg_change nxt l owner l1 n1 ->
  (forall e, In e l -> (e_id e <= nxt)%N) -> NoDup (map e_id l) ->
  (forall e, In e l1 -> (e_id e <= n1)%N) /\ NoDup (map e_id l1).
Proof.
  intros [P|f P Hf|n Hn|e He Ho] Hb Hd.
  - split; [intros e He; apply filter_In in He; apply Hb; tauto | apply sublist_ids; exact Hd].
  - assert (Hm : map e_id (map f l) = map e_id l) by (rewrite map_map; apply map_ext; exact Hf).
    split.
    + intros e He. apply filter_In in He. destruct He as [He _]. apply in_map_iff in He.
      destruct He as [x [<- Hx]]. rewrite Hf. apply Hb. exact Hx.
    + apply sublist_ids. rewrite Hm. exact Hd.
  - split; [intros e He; specialize (Hb e He); lia | exact Hd].
  - split.
    + intros x Hx. apply in_app_or in Hx. destruct Hx as [Hx|[<-|[]]]; [specialize (Hb x Hx); lia | lia].
    + rewrite map_app. simpl. apply NoDup_snoc; [exact Hd|].
      intros Hin. apply in_map_iff in Hin. destruct Hin as [y [Hy Hin]]. specialize (Hb y Hin). lia.
Qed.

Definition effect (s s1 : st) : Prop :=
  RegOK s1 /\
  reg_change (next_sub s) (subs s) (owner_ok s1) (subs s1) (next_sub s1) /\
  reg_change (next_bind s) (binds s) (owner_ok s1) (binds s1) (next_bind s1).

Lemma reg_change_same nxt l owner : reg_change nxt l owner l nxt.
Proof. apply rc_bump. lia. Qed.

Lemma unchanged_effect s s1 :
  subs s1 = subs s -> next_sub s1 = next_sub s -> binds s1 = binds s -> next_bind s1 = next_bind s ->
  peers s1 = peers s -> RegOK s -> effect s s1.
Proof.
  intros H1 H2 H3 H4 H5 [HokS HokB]. split; [|split].
  - split; intros e He; [rewrite H1 in He | rewrite H3 in He]; apply (owner_peers s s1 e H5); auto.
  - rewrite H1, H2. apply reg_change_same.
  - rewrite H3, H4. apply reg_change_same.
Qed.

Lemma RegOK_peers s s1 (P Q : entry -> bool) :
  peers s1 = peers s -> subs s1 = filter P (subs s) -> binds s1 = filter Q (binds s) -> RegOK s -> RegOK s1.
Proof.
  intros Hp Hs Hb [HokS HokB]. split; intros e He; [rewrite Hs in He | rewrite Hb in He];
    apply filter_In in He; apply (owner_peers s s1 e Hp); [apply HokS | apply HokB]; tauto.
Qed.

Lemma filter_true {A} (l : list A) : l = filter (fun _ => true) l.
Proof. symmetry. apply filter_all. reflexivity. Qed.

Lemma registry_call_effect s p ctr ack c (f : st -> peer -> reg_call -> st * list obs * bool) :
  (forall pe, find_peer s p = Some pe -> RegOK s -> effect s (fst (fst (f s pe c)))) ->
  RegOK s -> effect s (fst (registry_call s p ctr ack c f)).
Proof.
  intros Hf Hok. unfold registry_call, with_source.
  destruct (find_peer s p) as [pe|] eqn:Ep; [|simpl; apply unchanged_effect; auto].
  destruct (remote_feature pe (nm_addr None)); [|simpl; apply unchanged_effect; auto].
  specialize (Hf pe eq_refl Hok). destruct (f s pe c) as [[s1 evs] err]. exact Hf.
Qed.

(* ---------- the device-added handler of a discovery reply ---------- *)
Lemma complete_one_props p d x :
  e_id (complete_one p d x) = e_id x /\ e_ski (complete_one p d x) = e_ski x /\
  e_srv (complete_one p d x) = e_srv x /\ fa_ent (e_cli (complete_one p d x)) = fa_ent (e_cli x).
Proof.
  unfold complete_one. destruct (N.eqb (e_ski x) p && eqb_faddr (e_cli x) (nm_addr None)) eqn:E; simpl; [|auto].
  apply andb_true_iff in E. destruct E as [_ E]. apply eqb_faddr_eq in E. rewrite E. auto.
Qed.

Definition reply_map (p : N) (pe pe1 : peer) (l : list entry) : list entry :=
  if reply_completes pe pe1 then complete_nm_addr p (p_addr pe1) l else l.

Lemma reply_map_map p pe pe1 l : exists f, (forall x, f x = x \/ f x = complete_one p (p_addr pe1) x) /\ reply_map p pe pe1 l = map f l.
Proof.
  unfold reply_map. destruct (reply_completes pe pe1).
  - exists (complete_one p (p_addr pe1)). split; [auto | reflexivity].
  - exists (fun x => x). split; [auto | symmetry; apply map_id].
Qed.

Lemma find_rent_complete_tree pe d e :
  match find_rent pe e with Some _ => True | None => False end ->
  match find_rent (complete_nm_tree pe d) e with Some _ => True | None => False end.
Proof.
  unfold find_rent, complete_nm_tree. simpl. induction (p_ents pe) as [|x l IH]; simpl; [tauto|].
  assert (Ha : forall y, re_addr (if eqb_eaddr (re_addr y) [0%N]
                                  then {| re_dev := re_dev y; re_addr := re_addr y;
                                          re_feats := map (fun rf => if N.eqb (rf_id rf) 0 && eqb_optN (rf_dev rf) None
                                                                     then {| rf_dev := d; rf_id := rf_id rf; rf_type := rf_type rf; rf_role := rf_role rf |}
                                                                     else rf) (re_feats y) |}
                                  else y) = re_addr y) by (intros y; destruct (eqb_eaddr (re_addr y) [0%N]); reflexivity).
  rewrite Ha. destruct (eqb_eaddr (re_addr x) e); [tauto | exact IH].
Qed.

(* the handler rewrites client addresses and node-management feature addresses, nothing else the
   registries' ownership depends on *)
Lemma handle_device_added_spec s1 p pe pe1 listed0 :
  find_peer s1 p = Some pe1 -> p_ski pe1 = p -> RegOK s1 ->
  let s2 := handle_device_added s1 p pe pe1 listed0 in
  RegOK s2 /\ subs s2 = reply_map p pe pe1 (subs s1) /\ binds s2 = reply_map p pe pe1 (binds s1) /\
  next_sub s2 = next_sub s1 /\ next_bind s2 = next_bind s1 /\
  (forall q, match find_peer s1 q, find_peer s2 q with
             | Some a, Some b => p_ski b = p_ski a /\ p_addr b = p_addr a
             | None, None => True
             | _, _ => False
             end).
Proof.
  intros Ep Hski Hok. unfold handle_device_added, reply_map.
  set (sa := set_binds (set_subs s1 (complete_nm_addr p (p_addr pe1) (subs s1)) (next_sub s1))
                       (complete_nm_addr p (p_addr pe1) (binds s1)) (next_bind s1)).
  set (s1a := if reply_completes pe pe1 then (if listed0 then sa else set_peer sa (complete_nm_tree pe1 (p_addr pe1))) else s1).
  assert (H1a : RegOK s1a /\ subs s1a = (if reply_completes pe pe1 then complete_nm_addr p (p_addr pe1) (subs s1) else subs s1) /\
                binds s1a = (if reply_completes pe pe1 then complete_nm_addr p (p_addr pe1) (binds s1) else binds s1) /\
                next_sub s1a = next_sub s1 /\ next_bind s1a = next_bind s1 /\
                (forall q, match find_peer s1 q, find_peer s1a q with
                           | Some a, Some b => p_ski b = p_ski a /\ p_addr b = p_addr a
                           | None, None => True
                           | _, _ => False
                           end)).
  { unfold s1a. destruct (reply_completes pe pe1).
    2:{ repeat split; try assumption; try reflexivity; try (destruct Hok; assumption).
        intros q. destruct (find_peer s1 q); auto. }
    assert (Hown : forall s' (l : list entry),
              (forall e, In e l -> owner_ok s1 e) ->
              (forall q pq e, find_peer s1 q = Some pq -> match find_rent pq e with Some _ => True | None => False end ->
                 exists pq', find_peer s' q = Some pq' /\ match find_rent pq' e with Some _ => True | None => False end) ->
              forall e, In e (complete_nm_addr p (p_addr pe1) l) -> owner_ok s' e).
    { intros s' l Hl Hs' e He. unfold complete_nm_addr in He. apply in_map_iff in He. destruct He as [x [<- Hx]].
      destruct (complete_one_props p (p_addr pe1) x) as [_ [Hk [_ Hen]]].
      destruct (Hl x Hx) as [pq [en [Hf Hr]]].
      destruct (Hs' (e_ski x) pq (fa_ent (e_cli x)) Hf) as [pq' [Hf' Hr']]; [rewrite Hr; exact I|].
      destruct (find_rent pq' (fa_ent (e_cli x))) as [en'|] eqn:Er'; [|destruct Hr'].
      exists pq', en'. rewrite Hk, Hen. split; assumption. }
    destruct Hok as [HokS HokB]. destruct listed0.
    - assert (HR : RegOK sa).
      { split; [apply (Hown sa (subs s1) HokS) | apply (Hown sa (binds s1) HokB)];
          (intros q pq e Hf Hr; exists pq; split; [exact Hf | exact Hr]). }
      split; [exact HR|].
      repeat split; try reflexivity. intros q. change (find_peer sa q) with (find_peer s1 q). destruct (find_peer s1 q); auto.
    - assert (Hfp : forall q, find_peer (set_peer sa (complete_nm_tree pe1 (p_addr pe1))) q =
                      match find_peer s1 q with
                      | Some x => if N.eqb q p then Some (complete_nm_tree pe1 (p_addr pe1)) else Some x
                      | None => None
                      end).
      { intros q. rewrite find_peer_set_peer. change (find_peer sa q) with (find_peer s1 q). simpl p_ski. rewrite Hski. reflexivity. }
      assert (Hs' : forall q pq e, find_peer s1 q = Some pq -> match find_rent pq e with Some _ => True | None => False end ->
                 exists pq', find_peer (set_peer sa (complete_nm_tree pe1 (p_addr pe1))) q = Some pq' /\
                             match find_rent pq' e with Some _ => True | None => False end).
      { intros q pq e Hf Hr. rewrite Hfp, Hf. destruct (N.eqb_spec q p) as [E|E].
        - subst q. rewrite Ep in Hf. inversion Hf; subst pq. eexists. split; [reflexivity|].
          apply find_rent_complete_tree. exact Hr.
        - exists pq. auto. }
      assert (HR : RegOK (set_peer sa (complete_nm_tree pe1 (p_addr pe1)))).
      { split; [apply (Hown _ (subs s1) HokS Hs') | apply (Hown _ (binds s1) HokB Hs')]. }
      split; [exact HR|].
      repeat split; try reflexivity. intros q. rewrite Hfp. destruct (find_peer s1 q) as [x|] eqn:Ex; [|exact I].
      destruct (N.eqb_spec q p) as [E|E]; [|auto]. subst q. rewrite Ep in Ex. inversion Ex; subst x. split; reflexivity. }
  destruct H1a as [Hok1a [Hs [Hb [Hn [Hnb Hfp]]]]].
  assert (Hupd : forall d0, let s2 := upd_lfeat s1a [0%N] 0 (add_client_ref true (nm_addr (Some d0))) in
            RegOK s2 /\ subs s2 = subs s1a /\ binds s2 = binds s1a /\ next_sub s2 = next_sub s1a /\ next_bind s2 = next_bind s1a /\
            peers s2 = peers s1a).
  { intros d0. cbv zeta. repeat split; try reflexivity; intros e He; (destruct Hok1a as [A B]); [apply (owner_peers s1a _ e eq_refl); apply A; exact He | apply (owner_peers s1a _ e eq_refl); apply B; exact He]. }
  destruct (match remote_feature pe (nm_addr None) with Some (_, rf) => rf_dev rf | None => None end) as [d0|].
  - destruct (peer_by_addr s1a d0).
    + destruct (Hupd d0) as [A [B [C [D [E F]]]]]. cbv zeta in *.
      split; [exact A|]. rewrite B, C, D, E. repeat split; try assumption.
    + (split; [exact Hok1a|]; repeat split; assumption).
  - destruct (p_addr pe1) as [d1|] eqn:Ea1.
    + destruct (peer_by_addr s1a d1).
      * destruct (Hupd d1) as [A [B [C [D [E F]]]]]. cbv zeta in *.
        split; [exact A|]. rewrite B, C, D, E. repeat split; try assumption.
        * (split; [exact Hok1a|]; repeat split; assumption).
    + (split; [exact Hok1a|]; repeat split; assumption).
Qed.

Lemma step_effect s o : RegOK s -> effect s (fst (step s o)).
Proof.
  intros Hok. destruct o; cbn [step].
  - (* AddLocalEntity *) destruct (existsb _ (lents s)); simpl; apply unchanged_effect; auto.
  - (* AddLocalFeature *) destruct (find _ (lents s)); simpl; apply unchanged_effect; auto.
  - (* AddFunction *) simpl. apply unchanged_effect; auto.
  - (* Connect *)
    pose proof (disconnect_spec s p Hok) as Hd.
    assert (G : forall s0 : st, regs_eq s s0 (not_of p) (not_of p) \/ regs_eq s s0 (fun l => l) (fun l => l) ->
                RegOK s0 ->
                forall pe, effect s {| lents := lents s0; lfeats := lfeats s0; peers := peers s0 ++ [pe];
                                       subs := subs s0; next_sub := next_sub s0; binds := binds s0; next_bind := next_bind s0 |}).
    { intros s0 Hr [HokS0 HokB0] pe.
      assert (Ho : forall e, owner_ok s0 e -> owner_ok {| lents := lents s0; lfeats := lfeats s0; peers := peers s0 ++ [pe];
                                       subs := subs s0; next_sub := next_sub s0; binds := binds s0; next_bind := next_bind s0 |} e).
      { intros e [pe' [en' [Hf Hr']]]. exists pe', en'. split; [|exact Hr'].
        unfold find_peer in *. simpl. rewrite find_app', Hf. reflexivity. }
      split; [split; intros e He; apply Ho; auto|].
      destruct Hr as [[H1 H2 H3 H4]|[H1 H2 H3 H4]]; simpl; rewrite H1, H2, H3, H4;
        split; try apply rc_filter; apply reg_change_same. }
    destruct (find_peer s p) as [pe0|] eqn:Ep.
    + destruct (disconnect s p) as [s0 evs]. destruct Hd as [Hr [Hok0 _]]. simpl. apply G; auto.
    + simpl. apply (G s); [right; constructor; reflexivity | exact Hok].
  - (* DiscoveryReply *)
    unfold with_source. destruct (find_peer s p) as [pe|] eqn:Ep; [|simpl; apply unchanged_effect; auto].
    destruct (remote_feature pe (nm_addr None)); [|simpl; apply unchanged_effect; auto].
    set (pe0 := {| p_ski := p_ski pe; p_addr := match dm_dev m with Some d => Some d | None => p_addr pe end; p_ents := p_ents pe |}).
    pose proof (RegOK_set_peer_add' s p pe pe0 m (dm_ents m) Ep eq_refl eq_refl Hok) as Hok1.
    pose proof (add_entities_ski pe0 m (dm_ents m)) as Hski.
    destruct (add_entities pe0 m (dm_ents m)) as [pe1 created]. simpl fst in Hok1, Hski.
    pose proof (find_peer_ski _ _ _ Ep) as Hp.
    assert (Ep1 : find_peer (set_peer s pe1) p = Some pe1).
    { rewrite find_peer_set_peer, Ep, Hski. simpl. rewrite Hp, N.eqb_refl. reflexivity. }
    assert (Hski1 : p_ski pe1 = p) by (rewrite Hski; simpl; exact Hp).
    destruct (handle_device_added_spec (set_peer s pe1) p pe pe1
                (existsb (fun de => eqb_eaddr (de_addr de) [0%N]) (dm_ents m)) Ep1 Hski1 Hok1) as [Hok2 [Hs2 [Hb2 [Hn2 [Hnb2 _]]]]].
    destruct (remove_unlisted _ p (map de_addr (dm_ents m)) (map re_addr (p_ents pe1))) as [s3 evs] eqn:Eu.
    destruct (remove_unlisted_spec _ _ _ _ _ _ Hok2 Eu) as [Hok3 [[Hs3 Hn3 Hb3 Hnb3] _]]. simpl fst.
    split; [exact Hok3|].
    destruct (reply_map_map p pe pe1 (subs s)) as [f [Hf HfS]].
    destruct (reply_map_map p pe pe1 (binds s)) as [g [Hg HgB]].
    assert (Hid : forall (h : entry -> entry), (forall x, h x = x \/ h x = complete_one p (p_addr pe1) x) -> forall x, e_id (h x) = e_id x).
    { intros h Hh x. destruct (Hh x) as [-> | ->]; [reflexivity | apply complete_one_props]. }
    split.
    + rewrite Hs3, Hn3, Hs2, Hn2. simpl subs. simpl next_sub. rewrite HfS. apply rc_mapf. apply Hid. exact Hf.
    + rewrite Hb3, Hnb3, Hb2, Hnb2. simpl binds. simpl next_bind. rewrite HgB. apply rc_mapf. apply Hid. exact Hg.
  - (* DiscoveryNotify *)
    unfold with_source. destruct (find_peer s p) as [pe|] eqn:Ep; [|simpl; apply unchanged_effect; auto].
    destruct (remote_feature pe (nm_addr None)); [|simpl; apply unchanged_effect; auto].
    destruct (dm_ents m) as [|d0 dr] eqn:Edm; [simpl; apply unchanged_effect; auto|].
    rewrite <- Edm. destruct (notify_entries s p m (dm_ents m)) as [[s1 evs] err] eqn:En.
    destruct (notify_entries_spec _ _ _ _ _ _ _ Hok En) as [Hok1 [[H1 H2 H3 H4] _]]. simpl fst.
    split; [exact Hok1|]. rewrite H1, H2, H3, H4. split; apply rc_filter.
  - (* SubCall *)
    apply registry_call_effect; [|exact Hok]. intros pe Ep _.
    pose proof (add_subscription_effect s pe c) as He. destruct (add_subscription s pe c) as [[s1 evs] err]. simpl fst.
    destruct He as [Hb [Hnb [Hp [_ [_ Hcase]]]]]. destruct Hok as [HokS HokB].
    assert (Ho : forall e, owner_ok s e -> owner_ok s1 e) by (intros e; apply owner_peers; exact Hp).
    destruct Hcase as [[Hs Hn]|[en [sf [cli [Hs [Hn Hr]]]]]].
    + split; [split; intros e He; [rewrite Hs in He | rewrite Hb in He]; auto|].
      split; [rewrite Hs; apply rc_bump; exact Hn | rewrite Hb, Hnb; apply reg_change_same].
    + assert (Hnew : owner_ok s1 (mk_entry (N.succ (next_sub s)) sf (p_ski pe) cli)).
      { apply Ho. exists pe, en. simpl. rewrite (find_peer_ski _ _ _ Ep). auto. }
      split; [split; intros e He; [rewrite Hs in He; apply in_app_or in He; destruct He as [He|[<-|[]]] | rewrite Hb in He]; auto|].
      split; [rewrite Hs, Hn; apply rc_add; [reflexivity | exact Hnew] | rewrite Hb, Hnb; apply reg_change_same].
  - (* SubDelete *)
    apply registry_call_effect; [|exact Hok]. intros pe Ep _.
    pose proof (remove_subscription_effect s pe c) as He. destruct (remove_subscription s pe c) as [[s1 evs] err]. simpl fst.
    destruct He as [Hb [Hnb [Hp [Hn [_ [_ [P Hs]]]]]]].
    split; [apply (RegOK_peers s s1 P (fun _ => true) Hp Hs); [rewrite Hb; apply filter_true | exact Hok]|].
    split; [rewrite Hs, Hn; apply rc_filter | rewrite Hb, Hnb; apply reg_change_same].
  - (* BindCall *)
    apply registry_call_effect; [|exact Hok]. intros pe Ep _.
    pose proof (add_binding_effect s pe c) as He. destruct (add_binding s pe c) as [[s1 evs] err]. simpl fst.
    destruct He as [Hs [Hn [Hp [_ [_ Hcase]]]]]. destruct Hok as [HokS HokB].
    assert (Ho : forall e, owner_ok s e -> owner_ok s1 e) by (intros e; apply owner_peers; exact Hp).
    destruct Hcase as [[Hb Hnb]|[en [sf [cli [Hb [Hnb [Hr _]]]]]]].
    + split; [split; intros e He; [rewrite Hs in He | rewrite Hb in He]; auto|].
      split; [rewrite Hs, Hn; apply reg_change_same | rewrite Hb, Hnb; apply reg_change_same].
    + assert (Hnew : owner_ok s1 (mk_entry (N.succ (next_bind s)) sf (p_ski pe) cli)).
      { apply Ho. exists pe, en. simpl. rewrite (find_peer_ski _ _ _ Ep). auto. }
      split; [split; intros e He; [rewrite Hs in He | rewrite Hb in He; apply in_app_or in He; destruct He as [He|[<-|[]]]]; auto|].
      split; [rewrite Hs, Hn; apply reg_change_same | rewrite Hb, Hnb; apply rc_add; [reflexivity | exact Hnew]].
  - (* BindDelete *)
    apply registry_call_effect; [|exact Hok]. intros pe Ep _.
    pose proof (remove_binding_effect s pe c) as He. destruct (remove_binding s pe c) as [[s1 evs] err]. simpl fst.
    destruct He as [Hs [Hn [Hp [Hnb [_ [_ [P Hb]]]]]]].
    split; [apply (RegOK_peers s s1 (fun _ => true) P Hp); [rewrite Hs; apply filter_true | exact Hb | exact Hok]|].
    split; [rewrite Hs, Hn; apply reg_change_same | rewrite Hb, Hnb; apply rc_filter].
  - (* SetData *)
    destruct (find_lfeat s e (Some f)) as [lf|]; [|simpl; apply unchanged_effect; auto].
    destruct (fn_registered (lf_type lf) fn); simpl; apply unchanged_effect; auto.
  - (* Write *)
    unfold with_source. destruct (find_peer s p) as [pe|]; [|simpl; apply unchanged_effect; auto].
    destruct (remote_feature pe src) as [[en rf]|]; [|simpl; apply unchanged_effect; auto].
    destruct (local_feature s dst) as [lf|]; [|simpl; apply unchanged_effect; auto].
    destruct (assoc_N fn (lf_ops lf)) as [[rd [|]]|]; try solve [simpl; apply unchanged_effect; auto].
    destruct (negb (has_binding s lf (rf_addr en rf))); [simpl; apply unchanged_effect; auto|].
    destruct (negb (fn_registered (lf_type lf) fn)); simpl; apply unchanged_effect; auto.
  - (* Disconnect *)
    pose proof (disconnect_spec s p Hok) as Hd. destruct (disconnect s p) as [s0 evs].
    destruct Hd as [[H1 H2 H3 H4] [Hok0 _]]. simpl fst. split; [exact Hok0|].
    rewrite H1, H2, H3, H4. split; apply rc_filter.
  - simpl. apply unchanged_effect; auto.
  - simpl. apply unchanged_effect; auto.
  - (* LocalSubscribe *)
    unfold local_request. destruct (find_lfeat s e (Some f)) as [lf|]; [|simpl; apply unchanged_effect; auto].
    destruct (fa_dev r); [|simpl; apply unchanged_effect; auto].
    destruct (peer_by_addr s n); [|simpl; apply unchanged_effect; auto].
    destruct (eqb_role (lf_role lf) RServer); simpl; apply unchanged_effect; auto.
  - unfold local_request. destruct (find_lfeat s e (Some f)) as [lf|]; [|simpl; apply unchanged_effect; auto].
    destruct (fa_dev r); [|simpl; apply unchanged_effect; auto].
    destruct (peer_by_addr s n); [|simpl; apply unchanged_effect; auto].
    destruct (eqb_role (lf_role lf) RServer); simpl; apply unchanged_effect; auto.
  - destruct (find_lfeat s e (Some f)); simpl; apply unchanged_effect; auto.
  - destruct (find_lfeat s e (Some f)); simpl; apply unchanged_effect; auto.
  - destruct (find_lfeat s e (Some f)) as [lf|]; [destruct (assoc_N fn (lf_data lf))|]; simpl; apply unchanged_effect; auto.
  - simpl. apply unchanged_effect; auto.
  - (* LocalUnsubscribe *)
    unfold local_unrequest. destruct (find_lfeat s e (Some f)) as [lf|]; [|simpl; apply unchanged_effect; auto].
    destruct (fa_dev r); [|simpl; apply unchanged_effect; auto].
    destruct (peer_by_addr s n); simpl; apply unchanged_effect; auto.
  - (* LocalUnbind *)
    unfold local_unrequest. destruct (find_lfeat s e (Some f)) as [lf|]; [|simpl; apply unchanged_effect; auto].
    destruct (fa_dev r); [|simpl; apply unchanged_effect; auto].
    destruct (peer_by_addr s n); simpl; apply unchanged_effect; auto.
Qed.

Record SInv (s : st) : Prop := { si_ok : RegOK s; si_ids : IdsOK s }.

Lemma sinv_init : SInv init.
Proof. constructor; [split; simpl; tauto | repeat split; simpl; try tauto; constructor]. Qed.

Theorem sinv_step s o : SInv s -> SInv (fst (step s o)).
Proof.
  intros [Hok [Hi1 [Hd1 [Hi2 Hd2]]]]. destruct (step_effect s o Hok) as [Hok1 [Hc1 Hc2]].
  destruct (reg_change_ids _ _ _ _ _ Hc1 Hi1 Hd1) as [A1 A2].
  destruct (reg_change_ids _ _ _ _ _ Hc2 Hi2 Hd2) as [B1 B2].
  constructor; [exact Hok1 | repeat split; assumption].
Qed.

Theorem sinv_run ops : forall s, SInv s -> SInv (fst (run s ops)).
Proof.
  induction ops as [|o ops IH]; intros s I; simpl; [exact I|].
  pose proof (sinv_step s o I) as I1. destruct (step s o) as [s1 out]. simpl in I1.
  specialize (IH s1 I1). destruct (run s1 ops) as [s2 tr]. exact IH.
Qed.

(* ---------- a discovery reply as a whole ---------- *)
Definition reply_addr (pe : peer) (m : disc_msg) : option N :=
  match dm_dev m with Some d => Some d | None => p_addr pe end.

(* the device address the reply writes into the node-management feature's address, if it does *)
Definition model_completion (s : st) (p : N) (m : disc_msg) : option N :=
  match find_peer s p with
  | Some pe =>
      match remote_feature pe (nm_addr None) with
      | Some (_, rf) => match rf_dev rf with None => reply_addr pe m | Some _ => None end
      | None => None
      end
  | None => None
  end.

Definition completed (s : st) (p : N) (m : disc_msg) (l : list entry) : list entry :=
  match model_completion s p m with
  | Some d => complete_nm_addr p (Some d) l
  | None => l
  end.

Lemma nm_completion_model s p m :
  nm_completion s p m (snd (step s (DiscoveryReply p m))) = model_completion s p m.
Proof.
  unfold nm_completion, model_completion. cbn [step]. unfold with_source.
  destruct (find_peer s p) as [pe|]; [|reflexivity].
  destruct (remote_feature pe (nm_addr None)) as [[en rf]|]; [|reflexivity].
  destruct (add_entities _ m (dm_ents m)) as [pe1 created].
  destruct (remove_unlisted _ p _ _) as [s3 evs]. cbn [snd reply_accepted existsb]. rewrite N.eqb_refl. reflexivity.
Qed.

Lemma reply_step_spec s p m : RegOK s ->
  let s' := fst (step s (DiscoveryReply p m)) in
  let out := snd (step s (DiscoveryReply p m)) in
  RegOK s' /\
  subs s' = drop p (gone_of out) (completed s p m (subs s)) /\
  binds s' = drop p (gone_of out) (completed s p m (binds s)) /\
  next_sub s' = next_sub s /\ next_bind s' = next_bind s /\
  existsb is_notify out = false /\ results out = [].
Proof.
  intros Hok. unfold completed, model_completion. cbn [step]. unfold with_source.
  destruct (find_peer s p) as [pe|] eqn:Ep.
  2:{ cbn [fst snd gone_of flat_map]. rewrite !drop_nil. repeat split; try reflexivity; destruct Hok; assumption. }
  destruct (remote_feature pe (nm_addr None)) as [[en rf]|] eqn:Esrc.
  2:{ cbn [fst snd gone_of flat_map]. rewrite !drop_nil. repeat split; try reflexivity; destruct Hok; assumption. }
  set (pe0 := {| p_ski := p_ski pe; p_addr := match dm_dev m with Some d => Some d | None => p_addr pe end; p_ents := p_ents pe |}).
  pose proof (RegOK_set_peer_add' s p pe pe0 m (dm_ents m) Ep eq_refl eq_refl Hok) as Hok1.
  pose proof (add_entities_ski pe0 m (dm_ents m)) as Hski.
  pose proof (add_entities_addr pe0 m (dm_ents m)) as Haddr.
  destruct (add_entities pe0 m (dm_ents m)) as [pe1 created]. simpl fst in Hok1, Hski, Haddr.
  pose proof (find_peer_ski _ _ _ Ep) as Hp.
  assert (Ep1 : find_peer (set_peer s pe1) p = Some pe1).
  { rewrite find_peer_set_peer, Ep, Hski. simpl. rewrite Hp, N.eqb_refl. reflexivity. }
  assert (Hski1 : p_ski pe1 = p) by (rewrite Hski; simpl; exact Hp).
  destruct (handle_device_added_spec (set_peer s pe1) p pe pe1
              (existsb (fun de => eqb_eaddr (de_addr de) [0%N]) (dm_ents m)) Ep1 Hski1 Hok1) as [Hok2 [Hs2 [Hb2 [Hn2 [Hnb2 _]]]]].
  destruct (remove_unlisted _ p (map de_addr (dm_ents m)) (map re_addr (p_ents pe1))) as [s3 evs] eqn:Eu.
  destruct (remove_unlisted_spec _ _ _ _ _ _ Hok2 Eu) as [Hok3 [[Hs3 Hn3 Hb3 Hnb3] [Hq3 Hr3]]].
  cbn [fst snd].
  assert (Hg : gone_of (OEvent EvDevice ChAdd p None None None :: map (ev_entity ChAdd pe1) created ++ evs) = gone_of evs).
  { change (gone_of (OEvent EvDevice ChAdd p None None None :: map (ev_entity ChAdd pe1) created ++ evs))
      with (gone_of (map (ev_entity ChAdd pe1) created ++ evs)).
    rewrite gone_of_app, gone_of_added. reflexivity. }
  rewrite Hg.
  assert (Hmap : forall l, reply_map p pe pe1 l =
                           match (match rf_dev rf with None => reply_addr pe m | Some _ => None end) with
                           | Some d => complete_nm_addr p (Some d) l
                           | None => l
                           end).
  { intros l. unfold reply_map, reply_completes, reply_addr. rewrite Esrc, Haddr. simpl p_addr.
    destruct (rf_dev rf); [reflexivity|]. destruct (match dm_dev m with Some d => Some d | None => p_addr pe end); reflexivity. }
  split; [exact Hok3|]. split; [|split; [|split; [|split; [|split]]]].
  - rewrite Hs3, Hs2, Hmap. reflexivity.
  - rewrite Hb3, Hb2, Hmap. reflexivity.
  - rewrite Hn3, Hn2. reflexivity.
  - rewrite Hnb3, Hnb2. reflexivity.
  - destruct (quiet_added pe1 created) as [Hqa _]. simpl. rewrite existsb_app, Hqa, Hq3. reflexivity.
  - destruct (quiet_added pe1 created) as [_ Hra].
    change (results (OEvent EvDevice ChAdd p None None None :: map (ev_entity ChAdd pe1) created ++ evs))
      with (results (map (ev_entity ChAdd pe1) created ++ evs)).
    rewrite results_app, Hra, Hr3. reflexivity.
Qed.
