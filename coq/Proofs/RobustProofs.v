(* C05 — proofs over Model/Robust.v (repaired reading, fx = true):
   totality (no [Panic] for any state and any datagram), the node-management
   invariant (every connected peer keeps entity [0] / feature 0), still-served,
   and acceptance of every trace by the monitor Spec/RobustSpec.v. *)
From Verif Require Import Base.Prelude Model.Robust Spec.RobustSpec.

Definition is_ok {A} (r : res A) : Prop := exists a, r = Ok a.

Lemma ok_ok {A} (a : A) : is_ok (Ok a).
Proof. eexists; reflexivity. Qed.

Lemma bind_ok {A B} (m : res A) (f : A -> res B) :
  is_ok m -> (forall a, is_ok (f a)) -> is_ok (bind m f).
Proof. intros [a ->] H. simpl. apply H. Qed.

Lemma guard_ok {A} site (fb : res A) : is_ok fb -> is_ok (guard true site fb).
Proof. intro H. exact H. Qed.

#[local] Hint Resolve ok_ok : okdb.

Ltac ok_step :=
  match goal with
  | |- is_ok (Ok _) => apply ok_ok
  | |- is_ok (bind _ _) => apply bind_ok; [ | intros ]
  | |- is_ok (guard true _ _) => apply guard_ok
  | |- is_ok (match ?x with _ => _ end) => destruct x
  | |- is_ok (let '(_, _) := ?x in _) => destruct x
  end.

Ltac ok_all := repeat ok_step; auto with okdb.

Lemma send_reply_ok p fn h : is_ok (send_reply true p fn h).
Proof. unfold send_reply. ok_all. Qed.
Lemma send_result_ok p e h : is_ok (send_result true p e h).
Proof. unfold send_result. ok_all. Qed.
#[local] Hint Resolve send_reply_ok send_result_ok : okdb.

Lemma extract_filters_ok l : forall fp fd, is_ok (extract_filters true l fp fd).
Proof.
  induction l as [|f r IH]; intros fp fd; simpl.
  - apply ok_ok.
  - destruct (f_ctrl f) as [[[|] [|]]|]; try apply guard_ok; apply IH.
Qed.
#[local] Hint Resolve extract_filters_ok : okdb.

Lemma selector_match_ok sel k : is_ok (selector_match true sel k).
Proof. unfold selector_match. ok_all. Qed.
#[local] Hint Resolve selector_match_ok : okdb.

Lemma map_res_ok {A B} (f : A -> res B) l : (forall x, is_ok (f x)) -> is_ok (map_res f l).
Proof.
  intro H. induction l as [|x r IH]; simpl.
  - apply ok_ok.
  - apply bind_ok; [apply H|]. intros. apply bind_ok; [exact IH|]. intros. apply ok_ok.
Qed.

Lemma delete_filtered_ok f store : is_ok (delete_filtered true f store).
Proof.
  unfold delete_filtered.
  destruct (eff_sel f), (eff_elems f); try apply ok_ok.
  - apply map_res_ok. intros. ok_all.
  - apply bind_ok; [apply map_res_ok; intros; ok_all | intros; apply ok_ok].
Qed.

Lemma copy_selected_ok f k0 store : is_ok (copy_selected true f k0 store).
Proof.
  unfold copy_selected. destruct (eff_sel f); [|apply ok_ok].
  apply map_res_ok. intros. ok_all.
Qed.
#[local] Hint Resolve delete_filtered_ok copy_selected_ok : okdb.

Lemma update_list_local_ok fp fd ids store : is_ok (update_list_local true fp fd ids store).
Proof.
  unfold update_list_local.
  apply bind_ok.
  - destruct fd; [destruct (filter_has_data f)|]; auto with okdb.
  - intros st1. destruct fp as [f|].
    + destruct (filter_has_data f).
      * destruct ids; [apply guard_ok, ok_ok|]. apply bind_ok; [auto with okdb | intros; apply ok_ok].
      * destruct ids as [|[?|] ?]; apply ok_ok.
    + destruct ids as [|[?|] ?]; apply ok_ok.
Qed.

Lemma update_remote_ok t fn fp fd n : is_ok (update_remote true t fn fp fd n).
Proof. unfold update_remote. ok_all. Qed.
#[local] Hint Resolve update_list_local_ok update_remote_ok : okdb.

Lemma local_feature_opt_ok a : is_ok (local_feature_opt true a).
Proof. unfold local_feature_opt. ok_all. Qed.
Lemma remote_feature_opt_ok pe a : is_ok (remote_feature_opt true pe a).
Proof. unfold remote_feature_opt. ok_all. Qed.
Lemma no_client_ok site pe s : is_ok (no_client true site pe s).
Proof. unfold no_client. ok_all. Qed.
#[local] Hint Resolve local_feature_opt_ok remote_feature_opt_ok no_client_ok : okdb.

Lemma add_subscription_ok s pe r : is_ok (add_subscription true s pe r).
Proof. unfold add_subscription. ok_all. Qed.
Lemma remove_subscription_ok s pe r : is_ok (remove_subscription true s pe r).
Proof. unfold remove_subscription. ok_all. Qed.
Lemma add_binding_ok s pe r : is_ok (add_binding true s pe r).
Proof. unfold add_binding. ok_all. Qed.
Lemma remove_binding_ok s pe r : is_ok (remove_binding true s pe r).
Proof. unfold remove_binding. ok_all. Qed.
#[local] Hint Resolve add_subscription_ok remove_subscription_ok add_binding_ok remove_binding_ok : okdb.

Lemma make_feature_ok dev fd : is_ok (make_feature true dev fd).
Proof. unfold make_feature. ok_all. Qed.
#[local] Hint Resolve make_feature_ok : okdb.

Lemma make_features_ok dev e l : is_ok (make_features true dev e l).
Proof.
  induction l as [|[fd|] r IH]; simpl.
  - apply ok_ok.
  - destruct (fd_addr fd) as [a|]; [|exact IH].
    destruct (ent_is (fa_ent a) e); [|exact IH].
    apply bind_ok; auto with okdb. intros. apply bind_ok; [exact IH|]. intros. apply ok_ok.
  - exact IH.
Qed.
#[local] Hint Resolve make_features_ok : okdb.

(* the repaired entity check never lets an empty address through *)
Lemma check_entity_nonempty initial pe ei ed ea e :
  check_entity true initial pe ei = Some (ed, ea, e) -> e <> [].
Proof.
  unfold check_entity. destruct ei as [ed0|]; [|discriminate].
  destruct (ed_addr ed0) as [ea0|]; [|discriminate].
  destruct (ea_ent ea0) as [e0|]; [|discriminate].
  destruct e0 as [|x e0]; simpl; [discriminate|].
  intros H Heq.
  destruct initial.
  - inversion H; subst. discriminate.
  - destruct (match ed_state ed0 with Some ERemoved => _ | _ => false end) in H; [discriminate|].
    destruct (ea_dev ea0), (p_addr pe); try (inversion H; subst; discriminate).
    destruct (N.eqb n n0); [inversion H; subst; discriminate | discriminate].
Qed.

Lemma add_entities_ok initial d l : forall pe, is_ok (add_entities true initial pe d l).
Proof.
  induction l as [|ei r IH]; intros pe; simpl.
  - apply ok_ok.
  - destruct (check_entity true initial pe ei) as [[[ed ea] e]|] eqn:Hc; [|apply ok_ok].
    apply check_entity_nonempty in Hc.
    apply bind_ok.
    + destruct (find _ (p_ents pe)); [apply ok_ok|].
      destruct (ed_type ed); [|apply ok_ok].
      destruct e; [congruence | apply ok_ok].
    + intros [[en created]|]; [|apply ok_ok].
      apply bind_ok; auto with okdb.
Qed.
#[local] Hint Resolve add_entities_ok : okdb.

Lemma reply_discovery_ok s pe d : is_ok (reply_discovery true s pe d).
Proof.
  unfold reply_discovery. destruct (d_devinfo d) as [[da|]|]; try apply ok_ok.
  apply bind_ok; auto with okdb. intros [pe1 err]. destruct err; apply ok_ok.
Qed.

Lemma notify_entries_ok p d l : forall s, is_ok (notify_entries true s p d l).
Proof.
  induction l as [|ei r IH]; intros s; cbn [notify_entries].
  - apply ok_ok.
  - destruct ei as [ed|]; [|apply ok_ok].
    destruct (ed_addr ed); [|apply ok_ok].
    destruct (ed_state ed) as [[| |]|]; try apply ok_ok.
    + destruct (find_peer s p); [|apply ok_ok].
      apply bind_ok; auto with okdb. intros [pe1 err]. destruct err; [apply ok_ok | apply IH].
    + destruct (find_peer s p); [|apply ok_ok].
      destruct (check_entity true false p0 (Some ed)) as [[[? ?] ?]|]; [apply IH | apply ok_ok].
    + apply IH.
Qed.

Lemma notify_discovery_ok s pe partial d : is_ok (notify_discovery true s pe partial d).
Proof.
  unfold notify_discovery. destruct (d_ents _); [apply ok_ok | apply notify_entries_ok].
Qed.
#[local] Hint Resolve reply_discovery_ok notify_discovery_ok : okdb.

Lemma process_result_ok s c : is_ok (process_result s c).
Proof. unfold process_result, ret. ok_all. Qed.
#[local] Hint Resolve process_result_ok : okdb.

Lemma reg_outcome_ok s r : is_ok r -> is_ok (reg_outcome s r).
Proof. intro H. unfold reg_outcome, ret. apply bind_ok; [exact H|]. intros [s1 err]. apply ok_ok. Qed.

Lemma nm_handle_ok s pe rf h k c fp : is_ok (nm_handle true s pe rf h k c fp).
Proof.
  unfold nm_handle, ret.
  repeat (first
    [ apply ok_ok
    | apply process_result_ok
    | apply reg_outcome_ok; auto with okdb
    | apply guard_ok
    | apply bind_ok; [ auto with okdb | intros ]
    | match goal with
      | |- is_ok (match ?x with _ => _ end) => destruct x
      end ]).
Qed.
#[local] Hint Resolve nm_handle_ok : okdb.

Lemma process_write_ok s p lf h c fn fp fd : is_ok (process_write true s p lf h c fn fp fd).
Proof.
  unfold process_write, ret.
  repeat (first
    [ apply ok_ok
    | apply guard_ok
    | apply bind_ok; [ auto with okdb | intros ]
    | match goal with
      | |- is_ok (match ?x with _ => _ end) => destruct x
      | |- is_ok (let '(_, _) := ?x in _) => destruct x
      end ]).
Qed.
#[local] Hint Resolve process_write_ok : okdb.

Lemma feature_handle_ok s pe rf lf h k c fp fd : is_ok (feature_handle true s pe rf lf h k c fp fd).
Proof.
  unfold feature_handle, ret.
  repeat (first
    [ apply ok_ok
    | apply process_result_ok
    | apply process_write_ok
    | apply bind_ok; [ auto with okdb | intros ]
    | match goal with
      | |- is_ok (match ?x with _ => _ end) => destruct x
      end ]).
Qed.
#[local] Hint Resolve feature_handle_ok : okdb.

Lemma print_overview_ok h k c : is_ok (print_overview true h k c).
Proof. unfold print_overview. ok_all. Qed.
#[local] Hint Resolve print_overview_ok : okdb.

(* C05_total, core: the repaired ProcessCmd returns for EVERY state and EVERY datagram *)
Lemma process_cmd_ok s pe d : is_ok (process_cmd true s pe d).
Proof.
  unfold process_cmd.
  destruct (h_src (dg_hd d)) as [src|]; [|apply ok_ok].
  destruct (h_dst (dg_hd d)) as [dst|]; [|apply ok_ok].
  cbv iota beta.
  apply bind_ok; [auto with okdb|]. intros lfo.
  destruct (dg_cmd d) as [c|]; [|apply ok_ok].
  apply bind_ok; [auto with okdb|]. intros [fp fd].
  destruct (remote_feature pe src) as [[en rf]|]; [|apply ok_ok].
  destruct (h_cls (dg_hd d)) as [k|]; [|apply bind_ok; [auto with okdb | intros; apply ok_ok]].
  destruct lfo as [lf|]; [|destruct (is_cls k CResult); [apply ok_ok | apply bind_ok; [auto with okdb | intros; apply ok_ok]]].
  apply bind_ok; [auto with okdb|]. intros _.
  apply bind_ok.
  - destruct (is_cls k CWrite); [|apply ok_ok].
    destruct (c_data c) as [fn|]; [|apply bind_ok; [auto with okdb | intros; apply ok_ok]].
    destruct (assoc_N fn (lf_ops lf)) as [[rd [|]]|];
      try (apply bind_ok; [auto with okdb | intros; apply ok_ok]).
    destruct (has_binding s lf en rf); [apply ok_ok | apply bind_ok; [auto with okdb | intros; apply ok_ok]].
  - intros [o|]; [apply ok_ok|].
    apply bind_ok.
    + destruct (N.eqb (lf_type lf) T_NODEMGMT); auto with okdb.
    + intros [[s1 o] err]. destruct err as [e|].
      * destruct (is_cls k CResult); [apply ok_ok | apply bind_ok; [auto with okdb | intros; apply ok_ok]].
      * destruct (h_ack (dg_hd d)) as [[|]|]; try apply ok_ok.
        destruct (is_cls k CCall || is_cls k CReply || is_cls k CNotify);
          [apply bind_ok; [auto with okdb | intros; apply ok_ok] | apply ok_ok].
Qed.

Lemma step_res_ok s o : is_ok (step_res true s o).
Proof.
  destruct o as [p|p|p [d|]|p c|p]; simpl; try apply ok_ok.
  - destruct (find_peer s p); apply ok_ok.
  - destruct (find_peer s p); [apply process_cmd_ok | apply ok_ok].
  - destruct (find_peer s p); [apply process_cmd_ok | apply ok_ok].
Qed.

(* ------------------------------------------------------------------ the node-management invariant *)
Lemma eqb_ln_eq a : forall b, eqb_ln a b = true <-> a = b.
Proof.
  induction a as [|x a IH]; destruct b as [|y b]; simpl; split; intro H; try reflexivity; try discriminate.
  - apply andb_true_iff in H. destruct H as [H1 H2]. apply N.eqb_eq in H1. apply IH in H2. subst. reflexivity.
  - inversion H; subst. rewrite N.eqb_refl. simpl. apply IH. reflexivity.
Qed.

Lemma eqb_ln_refl a : eqb_ln a a = true.
Proof. apply eqb_ln_eq. reflexivity. Qed.

Lemma eqb_ln_neq a b : a <> b -> eqb_ln a b = false.
Proof. intro H. destruct (eqb_ln a b) eqn:E; [apply eqb_ln_eq in E; contradiction | reflexivity]. Qed.

Definition nm_ent : list N := [0%N].
Definition isnm (x : rent) : bool := eqb_ln nm_ent (re_addr x).

(* entity [0] with a feature 0 is there: the source address of node-management messages resolves *)
Definition has_nm_ents (l : list rent) : Prop :=
  exists en rf, find isnm l = Some en /\ find (fun x => N.eqb (rf_id x) 0) (re_feats en) = Some rf.
Definition has_nm (pe : peer) : Prop := has_nm_ents (p_ents pe).
Definition inv (s : st) : Prop := Forall has_nm (peers s).
Definition skis (s : st) : list N := map p_ski (peers s).

Lemma find_map_same {A} (P : A -> bool) (g : A -> A) l :
  (forall x, P (g x) = P x) -> (forall x, P x = true -> g x = x) -> find P (map g l) = find P l.
Proof.
  intros H1 H2. induction l as [|x r IH]; simpl; [reflexivity|].
  rewrite H1. destruct (P x) eqn:E; [rewrite H2 by exact E; reflexivity | exact IH].
Qed.

Lemma find_map_repl {A} (P : A -> bool) (g : A -> A) (y : A) l :
  (forall x, P (g x) = P x) -> (forall x, P x = true -> g x = y) ->
  find P (map g l) = match find P l with Some _ => Some y | None => None end.
Proof.
  intros H1 H2. induction l as [|x r IH]; simpl; [reflexivity|].
  rewrite H1. destruct (P x) eqn:E; [rewrite H2 by exact E; reflexivity | exact IH].
Qed.

Lemma find_app_some {A} (P : A -> bool) l l' x : find P l = Some x -> find P (l ++ l') = Some x.
Proof.
  induction l as [|y r IH]; simpl; [discriminate|]. destruct (P y); [trivial | exact IH].
Qed.

Lemma find_filter_same {A} (P Q : A -> bool) l :
  (forall x, P x = true -> Q x = true) -> find P (filter Q l) = find P l.
Proof.
  intro H. induction l as [|x r IH]; simpl; [reflexivity|].
  destruct (Q x) eqn:EQ; simpl.
  - destruct (P x); [reflexivity | exact IH].
  - destruct (P x) eqn:EP; [rewrite H in EQ by exact EP; discriminate | exact IH].
Qed.

Lemma existsb_find {A} (P : A -> bool) l : existsb P l = true -> exists x, find P l = Some x.
Proof.
  induction l as [|y r IH]; simpl; [discriminate|].
  destruct (P y); [eexists; reflexivity | exact IH].
Qed.

(* one entry of AddEntityAndFeatures keeps entity [0] / feature 0 *)
Lemma upsert_keeps_nm ents e en1 (created : bool) :
  has_nm_ents ents ->
  re_addr en1 = e ->
  (e = nm_ent -> exists rf, find (fun x => N.eqb (rf_id x) 0) (re_feats en1) = Some rf) ->
  (created = true -> find (fun x => eqb_ln (re_addr x) e) ents = None) ->
  has_nm_ents (if created then ents ++ [en1] else map (fun x => if eqb_ln (re_addr x) e then en1 else x) ents).
Proof.
  intros [en [rf [Hf Hr]]] Haddr Hnm Hcr.
  destruct created.
  - exists en, rf. split; [apply find_app_some; exact Hf | exact Hr].
  - destruct (eqb_ln e nm_ent) eqn:E.
    + apply eqb_ln_eq in E. subst e. destruct (Hnm E) as [rf1 Hrf1].
      exists en1, rf1. split; [|exact Hrf1].
      rewrite (find_map_repl isnm _ en1).
      * rewrite Hf. reflexivity.
      * intros x. unfold isnm. destruct (eqb_ln (re_addr x) (re_addr en1)) eqn:E2; [|reflexivity].
        apply eqb_ln_eq in E2. rewrite E2. reflexivity.
      * intros x Hx. unfold isnm in Hx. apply eqb_ln_eq in Hx. rewrite <- Hx, E. rewrite eqb_ln_refl. reflexivity.
    + exists en, rf. split; [|exact Hr].
      rewrite find_map_same; [exact Hf | |].
      * intros x. unfold isnm. destruct (eqb_ln (re_addr x) e) eqn:E2; [|reflexivity].
        apply eqb_ln_eq in E2. rewrite Haddr, E2. reflexivity.
      * intros x Hx. unfold isnm in Hx. apply eqb_ln_eq in Hx.
        destruct (eqb_ln (re_addr x) e) eqn:E2; [|reflexivity].
        apply eqb_ln_eq in E2. rewrite <- Hx in E2. rewrite <- E2 in E. rewrite eqb_ln_refl in E. discriminate.
Qed.

Lemma add_entities_nm initial d l : forall pe pe1 err,
  add_entities true initial pe d l = Ok (pe1, err) -> has_nm pe -> has_nm pe1 /\ p_ski pe1 = p_ski pe.
Proof.
  induction l as [|ei r IH]; intros pe pe1 err H Hnm; simpl in H.
  - inversion H; subst. split; [exact Hnm | reflexivity].
  - destruct (check_entity true initial pe ei) as [[[ed ea] e]|] eqn:Hc; [|inversion H; subst; split; [exact Hnm | reflexivity]].
    apply check_entity_nonempty in Hc.
    destruct (find (fun x => eqb_ln (re_addr x) e) (p_ents pe)) as [en0|] eqn:Hfind; simpl in H.
    + destruct (make_features true _ e (d_feats d)) as [fs|] eqn:Hfs; simpl in H; [|discriminate].
      apply IH in H; [exact H|].
      unfold has_nm. cbn [p_ents].
      apply (upsert_keeps_nm (p_ents pe) e _ false Hnm); [reflexivity | | discriminate].
      intros He. cbn [re_feats]. subst e. cbn [andb]. rewrite eqb_ln_refl. cbn [andb].
      destruct (existsb (fun f => N.eqb (rf_id f) 0) fs) eqn:Ex; cbn [negb].
      * apply existsb_find in Ex. exact Ex.
      * clear -Ex. induction fs as [|f fs IHf]; simpl in *.
        -- eexists; reflexivity.
        -- apply orb_false_iff in Ex. destruct Ex as [E1 E2]. rewrite E1. apply IHf. exact E2.
    + destruct (ed_type ed); simpl in H; [|inversion H; subst; split; [exact Hnm | reflexivity]].
      destruct e as [|x e]; [congruence|]. simpl in H.
      destruct (make_features true _ (x :: e) (d_feats d)) as [fs|] eqn:Hfs; simpl in H; [|discriminate].
      apply IH in H; [exact H|].
      unfold has_nm. cbn [p_ents].
      apply (upsert_keeps_nm (p_ents pe) (x :: e) _ true Hnm); [reflexivity | | intros _; exact Hfind].
      intros He. exfalso. destruct Hnm as [en [rf [Hf _]]].
      apply find_some in Hf. destruct Hf as [Hin Hisnm]. unfold isnm in Hisnm. apply eqb_ln_eq in Hisnm.
      assert (Hnone := find_none _ _ Hfind en Hin). cbv beta in Hnone.
      rewrite <- Hisnm, He, eqb_ln_refl in Hnone. discriminate.
Qed.

Lemma set_peer_inv s pe1 : inv s -> has_nm pe1 -> inv (set_peer s pe1).
Proof.
  unfold inv, set_peer. cbn [peers]. intros H H1. apply Forall_forall. intros x Hx.
  apply in_map_iff in Hx. destruct Hx as [y [Hy Hin]].
  destruct (N.eqb (p_ski y) (p_ski pe1)); subst x; [exact H1|].
  rewrite Forall_forall in H. apply H. exact Hin.
Qed.

Lemma set_peer_skis s pe pe1 : p_ski pe1 = p_ski pe -> skis (set_peer s pe1) = skis s.
Proof.
  intros _. unfold skis, set_peer. cbn [peers]. rewrite map_map. apply map_ext_in. intros x _.
  destruct (N.eqb (p_ski x) (p_ski pe1)) eqn:E; [apply N.eqb_eq in E; symmetry; exact E | reflexivity].
Qed.

Lemma find_peer_in s p pe : find_peer s p = Some pe -> In pe (peers s) /\ p_ski pe = p.
Proof.
  unfold find_peer. intro H. apply find_some in H. destruct H as [H1 H2]. apply N.eqb_eq in H2. auto.
Qed.

Lemma inv_find s p pe : inv s -> find_peer s p = Some pe -> has_nm pe.
Proof.
  intros Hi Hf. apply find_peer_in in Hf. destruct Hf as [Hin _].
  unfold inv in Hi. rewrite Forall_forall in Hi. apply Hi. exact Hin.
Qed.

Lemma remove_entity_good s p e : e <> nm_ent -> (inv s -> inv (remove_entity s p e)) /\ skis (remove_entity s p e) = skis s.
Proof.
  intro Hne. unfold remove_entity.
  destruct (find_peer s p) as [pe|] eqn:Hf; [|split; [trivial | reflexivity]].
  destruct (existsb _ (p_ents pe)); [|split; [trivial | reflexivity]].
  split.
  - intro Hi. unfold drop_entity_entries, inv. cbn [peers].
    apply set_peer_inv; [exact Hi|].
    assert (Hnm := inv_find _ _ _ Hi Hf). destruct Hnm as [en [rf [H1 H2]]].
    exists en, rf. split; [|exact H2]. cbn [p_ents].
    rewrite find_filter_same; [exact H1|].
    intros x Hx. unfold isnm in Hx. apply eqb_ln_eq in Hx.
    rewrite eqb_ln_neq; [reflexivity|]. intro Heq. apply Hne. rewrite <- Heq, <- Hx. reflexivity.
  - unfold drop_entity_entries, skis. cbn [peers].
    apply (set_peer_skis s pe). reflexivity.
Qed.

Lemma fold_remove_good p l : forall s, Forall (fun e => e <> nm_ent) l ->
  (inv s -> inv (fold_left (fun acc e => remove_entity acc p e) l s)) /\
  skis (fold_left (fun acc e => remove_entity acc p e) l s) = skis s.
Proof.
  induction l as [|e r IH]; intros s Hl; simpl; [split; [trivial | reflexivity]|].
  inversion Hl; subst.
  destruct (remove_entity_good s p e H1) as [Hi Hs].
  destruct (IH (remove_entity s p e) H2) as [Hi2 Hs2].
  split; [intro H; apply Hi2, Hi, H | rewrite Hs2; exact Hs].
Qed.

Definition good (s s1 : st) : Prop := (inv s -> inv s1) /\ skis s1 = skis s.

Lemma good_refl s : good s s.
Proof. split; [trivial | reflexivity]. Qed.

Lemma good_trans a b c : good a b -> good b c -> good a c.
Proof. intros [H1 H2] [H3 H4]. split; [auto | congruence]. Qed.

Lemma good_same_peers s s1 : peers s1 = peers s -> good s s1.
Proof. intro H. unfold good, inv, skis. rewrite H. split; [trivial | reflexivity]. Qed.

Lemma reply_discovery_good s pe d s1 err :
  reply_discovery true s pe d = Ok (s1, err) -> has_nm pe -> good s s1.
Proof.
  unfold reply_discovery. intros H Hnm.
  destruct (d_devinfo d) as [[da|]|]; try (inversion H; subst; apply good_refl).
  destruct (add_entities true true _ d (d_ents d)) as [[pe1 e1]|] eqn:Ha; simpl in H; [|discriminate].
  apply add_entities_nm in Ha; [|exact Hnm]. destruct Ha as [Hnm1 Hski]. cbn [p_ski] in Hski.
  assert (G1 : good s (set_peer s pe1)).
  { split; [intro Hi; apply set_peer_inv; assumption | apply (set_peer_skis s pe); exact Hski]. }
  destruct e1; inversion H; subst; [exact G1|].
  eapply good_trans; [exact G1|].
  apply fold_remove_good. apply Forall_forall. intros e He.
  apply filter_In in He. destruct He as [_ He]. apply andb_true_iff in He. destruct He as [_ He].
  cbn [andb] in He. intro Heq. subst e. unfold nm_ent in He. rewrite eqb_ln_refl in He. discriminate.
Qed.

Lemma check_entity_removed_not_nm pe ed ed' ea e :
  ed_state ed = Some ERemoved -> check_entity true false pe (Some ed) = Some (ed', ea, e) -> e <> nm_ent.
Proof.
  unfold check_entity. intros Hst H.
  destruct (ed_addr ed) as [ea0|]; [|discriminate].
  destruct (ea_ent ea0) as [e0|]; [|discriminate].
  rewrite Hst in H. cbn [andb] in H.
  destruct e0 as [|x e0]; [discriminate|].
  destruct (eqb_ln (x :: e0) [0%N]) eqn:E; [discriminate|].
  assert (e = x :: e0).
  { destruct (ea_dev ea0), (p_addr pe); try (inversion H; reflexivity).
    destruct (N.eqb n n0); [inversion H; reflexivity | discriminate]. }
  subst e. intro Heq. rewrite Heq in E. unfold nm_ent in E. rewrite eqb_ln_refl in E. discriminate.
Qed.

Lemma notify_entries_good p d l : forall s s1 err,
  notify_entries true s p d l = Ok (s1, err) -> good s s1.
Proof.
  induction l as [|ei r IH]; intros s s1 err H; cbn [notify_entries] in H.
  - inversion H; subst. apply good_refl.
  - destruct ei as [ed|]; [|inversion H; subst; apply good_refl].
    destruct (ed_addr ed) as [ea0|] eqn:Had; [|inversion H; subst; apply good_refl].
    destruct (ed_state ed) as [[| |]|] eqn:Hst; try (inversion H; subst; apply good_refl).
    + destruct (find_peer s p) as [pe|] eqn:Hf; [|inversion H; subst; apply good_refl].
      destruct (add_entities true false pe d [Some ed]) as [[pe1 e1]|] eqn:Ha; [|discriminate].
      cbn [bind] in H.
      assert (G1 : good s (set_peer s pe1)).
      { split.
        - intro Hi. apply add_entities_nm in Ha; [|eapply inv_find; eassumption].
          apply set_peer_inv; [exact Hi | apply Ha].
        - destruct (find_peer_in _ _ _ Hf) as [Hin _].
          unfold skis, set_peer. cbn [peers]. rewrite map_map. apply map_ext_in. intros x _.
          destruct (N.eqb (p_ski x) (p_ski pe1)) eqn:E; [apply N.eqb_eq in E; symmetry; exact E | reflexivity]. }
      destruct e1; [inversion H; subst; exact G1|].
      eapply good_trans; [exact G1 | eapply IH; exact H].
    + destruct (find_peer s p) as [pe|] eqn:Hf; [|inversion H; subst; apply good_refl].
      destruct (check_entity true false pe (Some ed)) as [[[ed' ea] e]|] eqn:Hc; [|inversion H; subst; apply good_refl].
      apply check_entity_removed_not_nm in Hc; [|exact Hst].
      eapply good_trans; [|eapply IH; exact H].
      destruct (remove_entity_good s p e Hc). split; assumption.
    + eapply IH; exact H.
Qed.

Lemma notify_discovery_good s pe partial d s1 err :
  notify_discovery true s pe partial d = Ok (s1, err) -> good s s1.
Proof.
  unfold notify_discovery. intro H.
  destruct (d_ents _); [inversion H; subst; apply good_refl | eapply notify_entries_good; exact H].
Qed.

(* the registries do not touch the peers *)
Ltac crush H :=
  repeat match type of H with
  | Panic _ = Ok _ => discriminate H
  | Ok _ = Ok _ => inversion H; subst; clear H
  | bind ?m _ = Ok _ => let E := fresh "E" in destruct m eqn:E; cbn [bind] in H
  | guard true _ _ = Ok _ => unfold guard in H
  | (match ?x with _ => _ end) = Ok _ => let E := fresh "E" in destruct x eqn:E
  | (let '(_, _) := ?x in _) = Ok _ => let E := fresh "E" in destruct x eqn:E
  end.

Lemma add_subscription_peers s pe r s1 b : add_subscription true s pe r = Ok (s1, b) -> peers s1 = peers s.
Proof. unfold add_subscription, no_client. intro H. crush H; reflexivity. Qed.
Lemma remove_subscription_peers s pe r s1 b : remove_subscription true s pe r = Ok (s1, b) -> peers s1 = peers s.
Proof. unfold remove_subscription, no_client. intro H. crush H; reflexivity. Qed.
Lemma add_binding_peers s pe r s1 b : add_binding true s pe r = Ok (s1, b) -> peers s1 = peers s.
Proof. unfold add_binding, no_client. intro H. crush H; reflexivity. Qed.
Lemma remove_binding_peers s pe r s1 b : remove_binding true s pe r = Ok (s1, b) -> peers s1 = peers s.
Proof. unfold remove_binding, no_client. intro H. crush H; reflexivity. Qed.

Lemma nm_handle_good s pe rf h k c fp s1 o e :
  nm_handle true s pe rf h k c fp = Ok (s1, o, e) -> has_nm pe -> good s s1.
Proof.
  unfold nm_handle, process_result, reg_outcome, ret. intros H Hnm.
  crush H;
    try apply good_refl;
    try (apply good_same_peers;
         first [ eapply add_subscription_peers; eassumption | eapply remove_subscription_peers; eassumption
               | eapply add_binding_peers; eassumption | eapply remove_binding_peers; eassumption ]);
    try (eapply reply_discovery_good; eassumption);
    try (eapply notify_discovery_good; eassumption).
Qed.

Lemma process_write_peers s p lf h c fn fp fd s1 o e :
  process_write true s p lf h c fn fp fd = Ok (s1, o, e) -> peers s1 = peers s.
Proof.
  unfold process_write, ret. intro H. crush H; try reflexivity; destruct (N.eqb fn F_CONS); reflexivity.
Qed.

Lemma feature_handle_good s pe rf lf h k c fp fd s1 o e :
  feature_handle true s pe rf lf h k c fp fd = Ok (s1, o, e) -> has_nm pe -> good s s1.
Proof.
  unfold feature_handle, process_result, ret. intros H Hnm.
  crush H; try apply good_refl;
    apply good_same_peers; eapply process_write_peers; eassumption.
Qed.

Lemma process_cmd_good s pe d s1 o :
  process_cmd true s pe d = Ok (s1, o) -> has_nm pe -> good s s1.
Proof.
  unfold process_cmd. intros H Hnm.
  crush H; try apply good_refl;
    match goal with E : (if ?b then _ else _) = Ok _ |- _ => destruct b end;
    first [ eapply nm_handle_good; eassumption
          | eapply feature_handle_good; eassumption ].
Qed.

(* ------------------------------------------------------------------ still served *)
Lemma probe_answered s pe p c :
  has_nm pe -> p_ski pe = p ->
  process_cmd true s pe (probe_dgram p c) = Ok (s, [OReply p F_DISC (Some c)]).
Proof.
  intros [en [rf [H1 H2]]] Hski.
  unfold process_cmd, probe_dgram. cbn [dg_hd dg_cmd h_src h_dst h_cls h_ctr h_ack h_ref].
  cbn [local_feature_opt bind c_filters extract_filters].
  assert (Hrf : remote_feature pe (nm_addr p) = Some (en, rf)).
  { unfold remote_feature, find_rent, find_rfeat, nm_addr. cbn [fa_ent fa_feat].
    change (find (fun x => ent_is (Some [0%N]) (re_addr x)) (p_ents pe)) with (find isnm (p_ents pe)).
    rewrite H1, H2. reflexivity. }
  rewrite Hrf.
  change (local_feature (nm_addr LOCAL_DEV)) with (Some (hd_error local_features)) || idtac.
  vm_compute local_feature. cbv iota beta.
  cbn [print_overview bind is_cls c_data lf_type].
  change (N.eqb T_NODEMGMT T_NODEMGMT) with true. cbv iota.
  unfold nm_handle. cbn [c_result c_disc send_reply h_ctr bind ret].
  rewrite Hski. reflexivity.
Qed.

Lemma find_peer_skis s p : (exists pe, find_peer s p = Some pe) <-> In p (skis s).
Proof.
  unfold find_peer, skis. split.
  - intros [pe H]. apply find_some in H. destruct H as [H1 H2]. apply N.eqb_eq in H2.
    apply in_map_iff. exists pe. auto.
  - intro H. apply in_map_iff in H. destruct H as [pe [H1 H2]].
    destruct (find (fun x => N.eqb (p_ski x) p) (peers s)) as [q|] eqn:E; [eexists; reflexivity|].
    apply (find_none _ _ E) in H2. cbv beta in H2. rewrite H1, N.eqb_refl in H2. discriminate.
Qed.

Definition rel (s : st) (m : mst) : Prop := inv s /\ (forall p, memN p m = true <-> In p (skis s)).

Lemma crash_free l : crash_verdict (map Out l) = [].
Proof.
  unfold crash_verdict.
  assert (H : forall f, (forall o, f (Out o) = false) -> existsb f (map Out l) = false).
  { intros f Hf. induction l as [|x r IH]; simpl; [reflexivity | rewrite Hf; exact IH]. }
  rewrite !H by reflexivity. reflexivity.
Qed.

Lemma disconnect_good s p : (inv s -> inv (disconnect s p)) /\ skis (disconnect s p) = filter (fun q => negb (N.eqb q p)) (skis s).
Proof.
  unfold disconnect. destruct (find_peer s p) as [pe|] eqn:Hf.
  - assert (Hp : forall l acc, peers (fold_left (fun acc en => drop_entity_entries acc p (re_addr en)) l acc) = peers acc).
    { induction l as [|x r IH]; intros acc; simpl; [reflexivity | rewrite IH; reflexivity]. }
    unfold inv, skis. cbn [peers]. rewrite Hp. split.
    + intro Hi. rewrite Forall_forall in *. intros x Hx. apply filter_In in Hx. apply Hi, Hx.
    + induction (peers s) as [|x r IH]; simpl; [reflexivity|].
      destruct (N.eqb (p_ski x) p); simpl; [exact IH | rewrite IH; reflexivity].
  - split; [trivial|].
    assert (Hn : ~ In p (skis s)).
    { intro Hin. apply find_peer_skis in Hin. destruct Hin as [pe Hpe]. congruence. }
    induction (skis s) as [|x r IH]; simpl; [reflexivity|].
    destruct (N.eqb x p) eqn:E; simpl.
    + apply N.eqb_eq in E. subst. exfalso. apply Hn. left. reflexivity.
    + rewrite <- IH; [reflexivity | intro; apply Hn; right; assumption].
Qed.

(* one step: the monitor accepts the model's observations and the relation is kept *)
Lemma step_accepted s m o :
  rel s m ->
  let '(s1, out) := step s o in
  let '(m1, v) := mon m o out in
  v = [] /\ rel s1 m1.
Proof.
  intros [Hi Hm]. unfold step, step_fx.
  destruct (step_res_ok s o) as [[s1 l] Hs]. rewrite Hs.
  destruct o as [p|p|p d|p c|p]; cbn [mon].
  - (* Connect *)
    simpl in Hs. destruct (find_peer s p) as [pe|] eqn:Hf; inversion Hs; subst; clear Hs; cbn [map].
    + assert (memN p m = true) by (apply Hm, find_peer_skis; eexists; exact Hf).
      rewrite H. split; [reflexivity | split; assumption].
    + assert (Hn : memN p m = false).
      { destruct (memN p m) eqn:E; [|reflexivity]. apply Hm, find_peer_skis in E. destruct E as [pe E]. congruence. }
      rewrite Hn. split; [reflexivity|]. split.
      * unfold inv. cbn [peers]. apply Forall_app. split; [exact Hi|].
        constructor; [|constructor]. exists {| re_addr := [0%N]; re_dev := None; re_feats := [nm_feature None] |}, (nm_feature None).
        split; reflexivity.
      * intro q. unfold skis. cbn [peers]. rewrite map_app, in_app_iff. cbn [map p_ski new_peer In memN existsb].
        unfold memN in *. cbn [existsb]. rewrite orb_true_iff, N.eqb_eq. rewrite (Hm q). unfold skis. intuition congruence.
  - (* Disconnect *)
    simpl in Hs. inversion Hs; subst; clear Hs. cbn [map]. split; [reflexivity|].
    destruct (disconnect_good s p) as [H1 H2]. split; [auto|].
    intro q. rewrite H2. rewrite filter_In. unfold memN. rewrite existsb_exists. split.
    + intros [x [Hx Hq]]. apply N.eqb_eq in Hq. subst x. apply filter_In in Hx. destruct Hx as [Hx Hne].
      split; [apply Hm, memN_In; exact Hx | exact Hne].
    + intros [Hq Hne]. exists q. split; [|apply N.eqb_refl]. apply filter_In. split; [|exact Hne].
      apply memN_In, Hm. exact Hq.
  - (* Inbound *)
    rewrite crash_free. split; [reflexivity|].
    simpl in Hs. destruct d as [d|]; [|inversion Hs; subst; split; assumption].
    destruct (find_peer s p) as [pe|] eqn:Hf; [|inversion Hs; subst; split; assumption].
    apply process_cmd_good in Hs; [|eapply inv_find; eassumption].
    destruct Hs as [G1 G2]. split; [auto|]. intro q. rewrite G2. apply Hm.
  - (* Probe *)
    simpl in Hs. destruct (find_peer s p) as [pe|] eqn:Hf.
    + assert (Hmem : memN p m = true) by (apply Hm, find_peer_skis; eexists; exact Hf).
      rewrite Hmem.
      destruct (find_peer_in _ _ _ Hf) as [_ Hski].
      rewrite (probe_answered s pe p c (inv_find _ _ _ Hi Hf) Hski) in Hs. inversion Hs; subst; clear Hs.
      cbn [map]. unfold crash_verdict, is_discovery_reply. cbn [existsb is_panic is_wedge is_badabs orb app].
      rewrite !N.eqb_refl. cbn. split; [reflexivity | split; assumption].
    + inversion Hs; subst; clear Hs.
      assert (Hn : memN p m = false).
      { destruct (memN p m) eqn:E; [|reflexivity]. apply Hm, find_peer_skis in E. destruct E as [pe E]. congruence. }
      rewrite Hn. cbn [map]. split; [reflexivity | split; assumption].
  - (* Opaque *)
    simpl in Hs. inversion Hs; subst; clear Hs. cbn [map]. split; [reflexivity | split; assumption].
Qed.

Lemma run_accepted_from ops : forall s m, rel s m -> accepted (judge m sinit (snd (run_fx true s ops))) = true.
Proof.
  induction ops as [|o r IH]; intros s m Hr; simpl; [reflexivity|].
  pose proof (step_accepted s m o Hr) as Hst. unfold step in Hst.
  destruct (step_fx true s o) as [s1 out].
  destruct (run_fx true s1 r) as [s2 tr] eqn:Hrun. cbn [snd judge].
  destruct (mon m o out) as [m1 v]. destruct Hst as [Hv Hrel]. subst v.
  cbn [accepted forallb fst snd excuses excused]. cbn [forallb andb].
  specialize (IH s1 m1 Hrel). rewrite Hrun in IH. exact IH.
Qed.

Lemma rel_init : rel init minit.
Proof.
  split; [constructor|]. intro p. cbn. split; [discriminate | intros []].
Qed.

Lemma run_accepted ops : accepted (judge minit sinit (snd (run init ops))) = true.
Proof. apply run_accepted_from, rel_init. Qed.

(* the state reached by a history *)
Lemma run_rel ops : forall s m, rel s m ->
  exists m', rel (fst (run_fx true s ops)) m'.
Proof.
  induction ops as [|o r IH]; intros s m Hr; simpl; [exists m; exact Hr|].
  pose proof (step_accepted s m o Hr) as Hst. unfold step in Hst.
  destruct (step_fx true s o) as [s1 out]. destruct (mon m o out) as [m1 v]. destruct Hst as [_ Hrel].
  destruct (IH s1 m1 Hrel) as [m' Hm']. destruct (run_fx true s1 r) as [s2 tr]. exists m'. exact Hm'.
Qed.

(* C05_total as stated in the design: for every reachable state and EVERY datagram *)
Lemma total_reachable ops p d :
  exists s' o, step_res true (fst (run init ops)) (Inbound p d) = Ok (s', o).
Proof. destruct (step_res_ok (fst (run init ops)) (Inbound p d)) as [[s' o] H]. eauto. Qed.

(* C05_still_served: after any history, a valid discovery read from any connected peer is answered
   by exactly one reply carrying the discovery data and the read's counter; nothing else is written
   and the state is unchanged *)
Lemma still_served ops p c :
  let s := fst (run init ops) in
  (exists pe, find_peer s p = Some pe) ->
  step s (Probe p c) = (s, [Out (OReply p F_DISC (Some c))]).
Proof.
  intros s [pe Hf].
  destruct (run_rel ops init minit rel_init) as [m [Hi _]]. fold s in Hi.
  unfold step, step_fx, step_res. rewrite Hf.
  destruct (find_peer_in _ _ _ Hf) as [_ Hski].
  rewrite (probe_answered s pe p c (inv_find _ _ _ Hi Hf) Hski). reflexivity.
Qed.
