(* C19 — proofs about Model/Period.v: below 3277 days a duration written as a period
   text and read back is the duration truncated to 100 ms (so multiples of 100 ms
   survive exactly). *)
From Verif Require Import Base.Prelude Model.Period.
Open Scope Z_scope.

(* the periods NewOf builds below 3277 days: sign, days, hours, minutes, tenths of seconds *)
Definition mkp (sg D Hh mi s : Z) : period :=
  {| p_y := 0; p_mo := 0; p_d := sg * (10 * D); p_h := sg * (10 * Hh);
     p_mi := sg * (10 * mi); p_s := sg * s |}.

Lemma gtb_false : forall x y, x <= y -> (x >? y) = false.
Proof. intros x y H. rewrite Z.gtb_ltb. apply Z.ltb_ge. exact H. Qed.

Lemma gtb_true : forall x y, y < x -> (x >? y) = true.
Proof. intros x y H. rewrite Z.gtb_ltb. apply Z.ltb_lt. exact H. Qed.

(* ---------- stage 1: NewOf ---------- *)

Lemma new_of_nonneg : forall sg a,
  (sg = 1 \/ sg = -1) -> 0 <= a -> a < 3277 * (24 * NS_HOUR) ->
  exists D Hh mi s,
    0 <= D <= 3276 /\ 0 <= Hh < 3277 /\ (D = 0 \/ Hh < 24) /\ 0 <= mi < 60 /\ 0 <= s < 600 /\
    (let sign := sg in
     let d := a in
     let sign10 := sign * 10 in
     let total_hours := Z.quot d NS_HOUR in
     if total_hours <? 3277 then
       {| p_y := 0; p_mo := 0; p_d := 0; p_h := sign10 * total_hours;
          p_mi := sign10 * Z.quot (Z.rem d NS_HOUR) NS_MINUTE;
          p_s := sign * Z.quot (Z.rem d NS_MINUTE) NS_100MS |}
     else
       let total_days := Z.quot total_hours 24 in
       if total_days <? 3277 then
         {| p_y := 0; p_mo := 0; p_d := sign10 * total_days;
            p_h := sign10 * (total_hours - total_days * 24);
            p_mi := sign10 * Z.quot (Z.rem d NS_HOUR) NS_MINUTE;
            p_s := sign * Z.quot (Z.rem d NS_MINUTE) NS_100MS |}
       else
         let years := Z.quot (10000 * total_days) daysPerYearE4 in
         let months := Z.quot (10000 * total_days) daysPerMonthE4 - 12 * years in
         let hours := total_hours - total_days * 24 in
         let days := Z.quot (total_days * 10000 - daysPerMonthE4 * months - daysPerYearE4 * years) 10000 in
         {| p_y := sign10 * years; p_mo := sign10 * months; p_d := sign10 * days;
            p_h := sign10 * hours; p_mi := 0; p_s := 0 |}) = mkp sg D Hh mi s /\
    a / NS_100MS = (D * 24 + Hh) * 36000 + mi * 600 + s.
Proof.
  intros sg a Hsg Ha Hb. cbv zeta.
  rewrite (Z.quot_div_nonneg a NS_HOUR) by (unfold NS_HOUR; lia).
  rewrite (Z.rem_mod_nonneg a NS_HOUR) by (unfold NS_HOUR; lia).
  rewrite (Z.rem_mod_nonneg a NS_MINUTE) by (unfold NS_MINUTE; lia).
  assert (Hrh : 0 <= a mod NS_HOUR < NS_HOUR) by (apply Z.mod_pos_bound; unfold NS_HOUR; lia).
  assert (Hrm : 0 <= a mod NS_MINUTE < NS_MINUTE) by (apply Z.mod_pos_bound; unfold NS_MINUTE; lia).
  rewrite (Z.quot_div_nonneg (a mod NS_HOUR) NS_MINUTE) by (unfold NS_MINUTE; lia).
  rewrite (Z.quot_div_nonneg (a mod NS_MINUTE) NS_100MS) by (unfold NS_100MS; lia).
  pose proof (Z.div_mod a NS_HOUR ltac:(unfold NS_HOUR; lia)) as E1.
  pose proof (Z.div_mod a NS_MINUTE ltac:(unfold NS_MINUTE; lia)) as E2.
  pose proof (Z.div_mod (a mod NS_HOUR) NS_MINUTE ltac:(unfold NS_MINUTE; lia)) as E3.
  pose proof (Z.mod_pos_bound (a mod NS_HOUR) NS_MINUTE ltac:(unfold NS_MINUTE; lia)) as B3.
  pose proof (Z.div_mod (a mod NS_MINUTE) NS_100MS ltac:(unfold NS_100MS; lia)) as E4.
  pose proof (Z.mod_pos_bound (a mod NS_MINUTE) NS_100MS ltac:(unfold NS_100MS; lia)) as B4.
  pose proof (Z.div_mod a NS_100MS ltac:(unfold NS_100MS; lia)) as E5.
  pose proof (Z.mod_pos_bound a NS_100MS ltac:(unfold NS_100MS; lia)) as B5.
  remember (a / NS_HOUR) as H eqn:EH.
  remember (a mod NS_HOUR) as rh eqn:Erh.
  remember (a / NS_MINUTE) as M eqn:EM.
  remember (a mod NS_MINUTE) as rm eqn:Erm.
  remember (rh / NS_MINUTE) as mi eqn:Emi.
  remember (rh mod NS_MINUTE) as rmi eqn:Ermi.
  remember (rm / NS_100MS) as s eqn:Es.
  remember (rm mod NS_100MS) as rs eqn:Ers.
  remember (a / NS_100MS) as T eqn:ET.
  remember (a mod NS_100MS) as rt eqn:Ert.
  clear EH Erh EM Erm Emi Ermi Es Ers ET Ert.
  unfold NS_HOUR, NS_MINUTE, NS_100MS in *.
  assert (H0 : 0 <= H < 78648) by lia.
  assert (Hmi : 0 <= mi < 60) by lia.
  assert (Hs : 0 <= s < 600) by lia.
  assert (HT : T = H * 36000 + mi * 600 + s) by lia.
  destruct (H <? 3277) eqn:C1; [apply Z.ltb_lt in C1 | apply Z.ltb_ge in C1].
  - exists 0, H, mi, s. repeat split; try lia.
    unfold mkp. destruct Hsg; subst sg; f_equal; lia.
  - rewrite (Z.quot_div_nonneg H 24) by lia.
    pose proof (Z.div_mod H 24 ltac:(lia)) as E6.
    pose proof (Z.mod_pos_bound H 24 ltac:(lia)) as B6.
    remember (H / 24) as D eqn:ED. remember (H mod 24) as hr eqn:Ehr. clear ED Ehr.
    assert (C2 : D < 3277) by lia.
    apply Z.ltb_lt in C2. rewrite C2. apply Z.ltb_lt in C2.
    exists D, (H - D * 24), mi, s. repeat split; try lia.
    unfold mkp. destruct Hsg; subst sg; f_equal; lia.
Qed.

Lemma new_of_core : forall ns, Z.abs ns < 3277 * (24 * NS_HOUR) ->
  exists sg D Hh mi s,
    (sg = 1 \/ sg = -1) /\
    0 <= D <= 3276 /\ 0 <= Hh < 3277 /\ (D = 0 \/ Hh < 24) /\ 0 <= mi < 60 /\ 0 <= s < 600 /\
    new_of ns = mkp sg D Hh mi s /\
    Z.quot ns NS_100MS = sg * ((D * 24 + Hh) * 36000 + mi * 600 + s).
Proof.
  intros ns Hb.
  assert (Hsg : (if ns <? 0 then -1 else 1) = 1 \/ (if ns <? 0 then -1 else 1) = -1)
    by (destruct (ns <? 0); [right | left]; reflexivity).
  destruct (new_of_nonneg (if ns <? 0 then -1 else 1) (Z.abs ns) Hsg (Z.abs_nonneg ns) Hb)
    as (D & Hh & mi & s & HD & HH & HDH & Hmi & Hs & Hnew & Hq).
  exists (if ns <? 0 then -1 else 1), D, Hh, mi, s.
  split; [exact Hsg | ]. split; [exact HD | ]. split; [exact HH | ]. split; [exact HDH | ].
  split; [exact Hmi | ]. split; [exact Hs | ]. split; [exact Hnew | ].
  rewrite <- Hq. clear. unfold NS_100MS.
  destruct (ns <? 0) eqn:E; [apply Z.ltb_lt in E | apply Z.ltb_ge in E].
  - replace (Z.abs ns) with (- ns) by lia.
    rewrite <- (Z.quot_div_nonneg (- ns) 100000000) by lia.
    rewrite Z.quot_opp_l by lia. lia.
  - replace (Z.abs ns) with ns by lia.
    rewrite <- (Z.quot_div_nonneg ns 100000000) by lia. lia.
Qed.

(* ---------- stage 2: Period.String ---------- *)

Lemma to_text_core : forall sg D Hh mi s,
  (sg = 1 \/ sg = -1) -> 0 <= D -> 0 <= Hh -> 0 <= mi -> 0 <= s ->
  let t := to_text (mkp sg D Hh mi s) in
  t_y t = 0 /\ t_mo t = 0 /\ 0 <= t_w t /\ 0 <= t_d t /\ t_d t + t_w t * 7 = 10 * D /\
  t_h t = 10 * Hh /\ t_mi t = 10 * mi /\ t_s t = s /\
  ((if t_neg t then -1 else 1) = sg \/ (D = 0 /\ Hh = 0 /\ mi = 0 /\ s = 0)).
Proof.
  intros sg D Hh mi s Hsg HD HH Hmi Hs.
  unfold to_text, is_negative, mkp. cbn [p_y p_mo p_d p_h p_mi p_s].
  change (0 <? 0) with false. cbn [orb].
  destruct Hsg; subst sg.
  - rewrite (proj2 (Z.ltb_ge (1 * (10 * D)) 0)) by lia.
    rewrite (proj2 (Z.ltb_ge (1 * (10 * Hh)) 0)) by lia.
    rewrite (proj2 (Z.ltb_ge (1 * (10 * mi)) 0)) by lia.
    rewrite (proj2 (Z.ltb_ge (1 * s) 0)) by lia.
    cbn [orb t_y t_mo t_w t_d t_h t_mi t_s t_neg].
    destruct (1 * (10 * D) =? 0) eqn:Ed; [apply Z.eqb_eq in Ed | apply Z.eqb_neq in Ed];
    destruct (Z.rem (1 * (10 * D)) 70 =? 0) eqn:Ew; [apply Z.eqb_eq in Ew | apply Z.eqb_neq in Ew | apply Z.eqb_eq in Ew | apply Z.eqb_neq in Ew];
    cbn [negb andb]; Z.quot_rem_to_equations; lia.
  - destruct (-1 * (10 * D) <? 0) eqn:E1; [apply Z.ltb_lt in E1 | apply Z.ltb_ge in E1];
    (destruct (-1 * (10 * Hh) <? 0) eqn:E2; [apply Z.ltb_lt in E2 | apply Z.ltb_ge in E2]);
    (destruct (-1 * (10 * mi) <? 0) eqn:E3; [apply Z.ltb_lt in E3 | apply Z.ltb_ge in E3]);
    (destruct (-1 * s <? 0) eqn:E4; [apply Z.ltb_lt in E4 | apply Z.ltb_ge in E4]);
    cbn [orb t_y t_mo t_w t_d t_h t_mi t_s t_neg];
    match goal with
    | |- context [Z.rem ?d 70 =? 0] =>
        (destruct (d =? 0) eqn:Ed; [apply Z.eqb_eq in Ed | apply Z.eqb_neq in Ed]);
        (destruct (Z.rem d 70 =? 0) eqn:Ew; [apply Z.eqb_eq in Ew | apply Z.eqb_neq in Ew])
    end;
    cbn [negb andb]; Z.quot_rem_to_equations; lia.
Qed.

(* ---------- stage 3: Parse and DurationApprox ---------- *)

Lemma parse_core : forall t D Hh mi s,
  t_y t = 0 -> t_mo t = 0 -> 0 <= t_w t -> 0 <= t_d t -> t_d t + t_w t * 7 = 10 * D ->
  t_h t = 10 * Hh -> t_mi t = 10 * mi -> t_s t = s ->
  0 <= D <= 3276 -> 0 <= Hh < 3277 -> (D = 0 \/ Hh < 24) -> 0 <= mi < 60 -> 0 <= s < 600 ->
  exists D' Hh', D' * 24 + Hh' = D * 24 + Hh /\
    parse t = Some (mkp (if t_neg t then -1 else 1) D' Hh' mi s).
Proof.
  intros t D Hh mi s Hy Hmo Hw Hd Hdw Hh_ Hmi_ Hs_ HD HH HDH Hmi Hs.
  unfold parse. rewrite Hy, Hmo, Hdw, Hh_, Hmi_, Hs_.
  change (0 <? 0) with false.
  rewrite (proj2 (Z.ltb_ge (t_w t) 0)) by lia.
  rewrite (proj2 (Z.ltb_ge (t_d t) 0)) by lia.
  rewrite (proj2 (Z.ltb_ge (10 * Hh) 0)) by lia.
  rewrite (proj2 (Z.ltb_ge (10 * mi) 0)) by lia.
  rewrite (proj2 (Z.ltb_ge s 0)) by lia.
  cbv beta iota zeta delta [orb].
  rewrite (Z.quot_small s 600) by lia. rewrite (Z.rem_small s 600) by lia.
  change (0 * 10) with 0. rewrite Z.add_0_r.
  rewrite (Z.quot_small (10 * mi) 600) by lia. rewrite (Z.rem_small (10 * mi) 600) by lia.
  change (0 * 10) with 0. rewrite Z.add_0_r.
  change (0 ÷ 120) with 0. change (Z.rem 0 120) with 0. change (0 + 0 * 10) with 0.
  assert (Rmi : Z.rem (10 * mi) 10 = 0) by (Z.quot_rem_to_equations; lia).
  destruct (10 * Hh >? 32204) eqn:Eh.
  - rewrite Z.gtb_ltb in Eh. apply Z.ltb_lt in Eh.
    assert (D0 : D = 0) by lia. subst D.
    pose proof (Z.div_mod Hh 24 ltac:(lia)) as Eq.
    pose proof (Z.mod_pos_bound Hh 24 ltac:(lia)) as Bq.
    remember (Hh / 24) as q eqn:Eqq. remember (Hh mod 24) as r eqn:Err. clear Eqq Err.
    assert (Q1 : (10 * Hh) ÷ 240 = q) by (Z.quot_rem_to_equations; lia).
    assert (Q2 : Z.rem (10 * Hh) 240 = 10 * r) by (Z.quot_rem_to_equations; lia).
    exists q, r. split; [lia | ].
    rewrite Q1, Q2. cbv beta iota.
    rewrite (gtb_false (10 * 0 + q * 10) 32760) by lia. cbv beta iota.
    change (0 ÷ 120) with 0. change (Z.rem 0 120) with 0. change (0 + 0 * 10) with 0.
    change (Z.rem 0 10) with 0. change (0 =? 0) with true. cbn [negb andb]. cbv beta iota.
    change (Z.rem 0 10) with 0. change (0 =? 0) with true. cbn [negb andb]. cbv beta iota.
    assert (Rd : Z.rem (10 * 0 + q * 10) 10 = 0) by (Z.quot_rem_to_equations; lia).
    rewrite Rd. change (0 =? 0) with true. cbn [negb andb]. cbv beta iota.
    assert (Rh : Z.rem (10 * r) 10 = 0) by (Z.quot_rem_to_equations; lia).
    rewrite Rh. change (0 =? 0) with true. cbn [negb andb]. cbv beta iota.
    rewrite Rmi. change (0 =? 0) with true. cbn [negb andb]. cbv beta iota.
    unfold MAX_INT16. change (0 >? 32767) with false.
    rewrite (gtb_false (10 * 0 + q * 10) 32767) by lia.
    rewrite (gtb_false (10 * r) 32767) by lia.
    rewrite (gtb_false (10 * mi) 32767) by lia.
    rewrite (gtb_false s 32767) by lia.
    cbv iota. f_equal. unfold mkp. destruct (t_neg t); f_equal; lia.
  - rewrite Z.gtb_ltb in Eh. apply Z.ltb_ge in Eh.
    exists D, Hh. split; [lia | ].
    cbv beta iota.
    rewrite (gtb_false (10 * D) 32760) by lia. cbv beta iota.
    change (0 ÷ 120) with 0. change (Z.rem 0 120) with 0. change (0 + 0 * 10) with 0.
    change (Z.rem 0 10) with 0. change (0 =? 0) with true. cbn [negb andb]. cbv beta iota.
    change (Z.rem 0 10) with 0. change (0 =? 0) with true. cbn [negb andb]. cbv beta iota.
    assert (Rd : Z.rem (10 * D) 10 = 0) by (Z.quot_rem_to_equations; lia).
    rewrite Rd. change (0 =? 0) with true. cbn [negb andb]. cbv beta iota.
    assert (Rh : Z.rem (10 * Hh) 10 = 0) by (Z.quot_rem_to_equations; lia).
    rewrite Rh. change (0 =? 0) with true. cbn [negb andb]. cbv beta iota.
    rewrite Rmi. change (0 =? 0) with true. cbn [negb andb]. cbv beta iota.
    unfold MAX_INT16. change (0 >? 32767) with false.
    rewrite (gtb_false (10 * D) 32767) by lia.
    rewrite (gtb_false (10 * Hh) 32767) by lia.
    rewrite (gtb_false (10 * mi) 32767) by lia.
    rewrite (gtb_false s 32767) by lia.
    cbv iota. f_equal. unfold mkp. destruct (t_neg t); f_equal; lia.
Qed.

Lemma duration_approx_mkp : forall sg D Hh mi s,
  duration_approx (mkp sg D Hh mi s) =
  sg * (((D * 24 + Hh) * 36000 + mi * 600 + s) * NS_100MS).
Proof.
  intros sg D Hh mi s. unfold duration_approx, mkp.
  cbn [p_y p_mo p_d p_h p_mi p_s].
  unfold daysPerYearE4, daysPerMonthE6, NS_100MS. ring.
Qed.

(* ---------- the round trip ---------- *)

(* what the code does outside the exact range, for documentation: truncation to 100 ms *)
Lemma duration_truncates : forall ns,
  Z.abs ns < 3277 * (24 * NS_HOUR) ->
  get_duration (new_duration ns) = Some (Z.quot ns NS_100MS * NS_100MS).
Proof.
  intros ns Hb.
  destruct (new_of_core ns Hb)
    as (sg & D & Hh & mi & s & Hsg & HD & HH & HDH & Hmi & Hs & Hnew & Hq).
  unfold new_duration. rewrite Hnew.
  pose proof (to_text_core sg D Hh mi s Hsg ltac:(lia) ltac:(lia) ltac:(lia) ltac:(lia)) as T.
  cbv zeta in T.
  destruct T as (T1 & T2 & T3 & T4 & T5 & T6 & T7 & T8 & T9).
  destruct (parse_core (to_text (mkp sg D Hh mi s)) D Hh mi s
              T1 T2 T3 T4 T5 T6 T7 T8 HD HH HDH Hmi Hs) as (D' & Hh' & Esum & Hp).
  unfold get_duration. rewrite Hp. f_equal.
  rewrite duration_approx_mkp, Hq, Esum.
  destruct T9 as [Esg | (Z1 & Z2 & Z3 & Z4)].
  - rewrite Esg. ring.
  - subst D Hh mi s. destruct (t_neg _); destruct Hsg; subst sg; unfold NS_100MS; lia.
Qed.

Lemma duration_roundtrip : forall ns,
  Z.rem ns NS_100MS = 0 -> Z.abs ns < 3277 * (24 * NS_HOUR) ->
  get_duration (new_duration ns) = Some ns.
Proof.
  intros ns Hr Hb. rewrite (duration_truncates ns Hb). f_equal.
  pose proof (Z.quot_rem' ns NS_100MS) as E. rewrite Hr in E. lia.
Qed.

(* sanity checks of the model on concrete values (both regimes, the weeks rule, the
   hours ripple, the sign, and the first value outside the range) *)
Example duration_ex1 : get_duration (new_duration (3276 * (24 * NS_HOUR) + 23 * NS_HOUR + 59 * NS_MINUTE + 599 * NS_100MS))
  = Some (3276 * (24 * NS_HOUR) + 23 * NS_HOUR + 59 * NS_MINUTE + 599 * NS_100MS).
Proof. vm_compute. reflexivity. Qed.

Example duration_ex2 : get_duration (new_duration (- (3250 * NS_HOUR + 100 * NS_100MS + 7)))
  = Some (- (3250 * NS_HOUR + 100 * NS_100MS)).
Proof. vm_compute. reflexivity. Qed.

Example duration_ex3 : get_duration (new_duration (- 99999999)) = Some 0.
Proof. vm_compute. reflexivity. Qed.

Example duration_ex4 : get_duration (new_duration (3277 * (24 * NS_HOUR))) <> Some (3277 * (24 * NS_HOUR)).
Proof. vm_compute. intros H. discriminate H. Qed.
