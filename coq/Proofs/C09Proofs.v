(* C09 — every trace of Model/Stack.v is accepted by the monitor Spec/C09Spec.v. *)
From Verif Require Import Base.Prelude Model.Stack Spec.StackObs Spec.BindReg Spec.C09Spec
  Proofs.StackLemmas Proofs.StackInv Proofs.BindRegProofs.
From Verif Require Import Model.StackX Spec.StackXSpec Proofs.StackXProofs.

(* ---------- the invariant ---------- *)
Record Inv (s : st) (m : mst) : Prop := {
  inv_w : w m = s;
  inv_reg : reg m = abs (binds s);
  inv_b : BInv s
}.

Lemma inv_init : Inv init minit.
Proof. constructor; [reflexivity | reflexivity | exact binv_init]. Qed.

(* the grant rule of the monitor is the decision of AddBinding *)
Lemma grant_eq s m pe c : Inv s m -> grant m pe c = bind_grant s pe c.
Proof.
  intros I. unfold grant, bind_grant, unbound. rewrite (inv_w _ _ I), (inv_reg _ _ I).
  destruct (local_feature s (rc_srv c)) as [sf|]; [|reflexivity].
  destruct (rc_type c) as [t|]; [|reflexivity].
  destruct (remote_feature pe (rc_cli c)) as [[en rf]|]; [|reflexivity].
  rewrite (existsb_abs _ (fun x => same_srv x sf)) by (intros x; apply on_srv_strip). reflexivity.
Qed.

Lemma quiet_ok out : no_bindev out -> quiet out = [].
Proof. unfold no_bindev, quiet, check. intros ->. reflexivity. Qed.

Lemma seen_listing p l : entries_seen p (listing p l) = abs (filter (fun x => N.eqb (e_ski x) p) l).
Proof.
  unfold listing, entries_seen. induction l as [|x l IH]; simpl; [reflexivity|].
  destruct (N.eqb_spec (e_ski x) p) as [E|E]; simpl; [|exact IH].
  rewrite IH. unfold strip at 1. rewrite E. destruct (e_srv x); reflexivity.
Qed.

Lemma ids_listing p l : ids_seen (listing p l) = map e_id (filter (fun x => N.eqb (e_ski x) p) l).
Proof.
  unfold listing, ids_seen. induction (filter _ l) as [|x r IH]; simpl; [reflexivity|]. rewrite IH. reflexivity.
Qed.

Lemma length_listing p l : length (listing p l) = length (filter (fun x => N.eqb (e_ski x) p) l).
Proof. unfold listing. apply map_length. Qed.

Lemma dev_listing p l :
  forallb (fun x => match x with OEntry _ srv _ => eqb_optN (fa_dev srv) (Some LOCAL_DEV) | _ => true end) (listing p l) = true.
Proof. unfold listing. induction (filter _ l) as [|x r IH]; simpl; [reflexivity | exact IH]. Qed.

Lemma listing_accepted p l : NoDup (map e_id l) ->
  listing_ok (filter (fun x => N.eqb (b_ski x) p) (abs l)) p (listing p l) = true.
Proof.
  intros Hnd. unfold listing_ok.
  rewrite (filter_abs _ (fun x => N.eqb (e_ski x) p)) by (intros x; reflexivity).
  rewrite seen_listing, ids_listing, length_listing, dev_listing.
  rewrite same_multiset_refl by (intros; apply eqb_bentry_refl).
  unfold abs. rewrite map_length, Nat.eqb_refl.
  rewrite nodupb_true by (apply sublist_ids; exact Hnd). reflexivity.
Qed.

Lemma ok_verdict k p ctr ack en cli sf src dst c1 c2 :
  check (eqb_list eqb_res (results ([ev_reg EvBind k p en cli sf] ++ call_result p ctr ack false src dst))
                          (expect_result p ctr ack false)) c1 ++
  check (eqb_list eqb_obs_event (filter is_bind_event ([ev_reg EvBind k p en cli sf] ++ call_result p ctr ack false src dst))
                                [ev_reg EvBind k p en cli sf]) c2 = [].
Proof.
  destruct ack, k; simpl; rewrite ?N.eqb_refl, ?eqb_eaddr_refl, ?eqb_faddr_refl; reflexivity.
Qed.

Lemma fail_verdict p ctr ack src dst c1 :
  check (eqb_list eqb_res (results ([] ++ call_result p ctr ack true src dst)) (expect_result p ctr ack true)) c1 ++
  quiet ([] ++ call_result p ctr ack true src dst) = [].
Proof. simpl. rewrite !N.eqb_refl. reflexivity. Qed.

(* ---------- the main step lemma ---------- *)
Lemma Inv_next s m o r : Inv s m -> r = abs (binds (fst (step s o))) ->
  Inv (fst (step s o)) {| w := fst (step s o); reg := r |}.
Proof. intros I ->. constructor; [reflexivity | reflexivity | apply binv_step; exact (inv_b _ _ I)]. Qed.

Lemma step_inv s m o : Inv s m ->
  let '(m1, v) := mon m o (snd (step s o)) in
  v = [] /\ Inv (fst (step s o)) m1.
Proof.
  intros I. pose proof (inv_w _ _ I) as Hw. pose proof (si_ok _ (bi_s _ (inv_b _ _ I))) as Hok.
  destruct (bind_neutral o) eqn:En.
  { pose proof (neutral_ops_frame s o En) as Hf.
    destruct o; try discriminate; try (
      cbn [mon]; unfold advance; rewrite Hw;
      match goal with |- context [step s ?o] => pose proof (Inv_next s m o (reg m) I) as HI end;
      destruct (step s _) as [s1 out]; destruct Hf as [[Hb _] Hq]; simpl fst in *; simpl snd;
      (split; [apply quiet_ok; exact Hq | apply HI; rewrite Hb; exact (inv_reg _ _ I)])).
    - (* ListBinds *)
    cbn [mon]. unfold advance. rewrite Hw. cbn [step]. simpl fst. simpl snd.
    rewrite (inv_reg _ _ I).
    destruct (si_ids _ (bi_s _ (inv_b _ _ I))) as [_ [_ [_ Hnd]]].
    rewrite (listing_accepted p (binds s) Hnd). split; [reflexivity|].
    constructor; [reflexivity | reflexivity | exact (inv_b _ _ I)]. }
  destruct o; try discriminate; clear En.
  - (* Connect *)
    cbn [mon]. unfold advance. rewrite Hw. split; [reflexivity|].
    apply (Inv_next s m); [exact I|]. rewrite (inv_reg _ _ I), drop_peer_abs, connect_binds by exact Hok. reflexivity.
  - (* DiscoveryReply *)
    cbn [mon]. unfold advance. rewrite Hw. split; [reflexivity|].
    apply (Inv_next s m); [exact I|]. rewrite (inv_reg _ _ I), after_reply_abs, discovery_reply_binds by exact Hok. reflexivity.
  - (* DiscoveryNotify *)
    cbn [mon]. unfold advance. rewrite Hw. split; [reflexivity|].
    apply (Inv_next s m); [exact I|]. rewrite (inv_reg _ _ I), drop_gone_abs, gone_seen_eq, discovery_notify_binds by exact Hok. reflexivity.
  - (* BindCall *)
    cbn [mon]. unfold advance. rewrite Hw.
    pose proof (binv_step s (BindCall p ctr ack c) (inv_b _ _ I)) as Hb1.
    cbn [step] in *. rewrite registry_call_eq in *.
    destruct (sender_known s p) as [pe|] eqn:Esk.
    2:{ simpl. split; [reflexivity|]. constructor; [reflexivity | apply (inv_reg _ _ I) | exact Hb1]. }
    destruct (sender_known_ski _ _ _ Esk) as [Hski _].
    rewrite (grant_eq s m pe c I). rewrite add_binding_eq in *.
    destruct (bind_grant s pe c) as [[[sf en] cli]|] eqn:Eg.
    + cbn [fst snd] in *. split.
      * rewrite Hski. apply ok_verdict.
      * constructor; simpl; [reflexivity | | exact Hb1].
        rewrite (inv_reg _ _ I). unfold abs. rewrite map_app. simpl. unfold strip, mk_entry. simpl. rewrite Hski. reflexivity.
    + cbn [fst snd] in *. split.
      * apply fail_verdict.
      * constructor; [reflexivity | apply (inv_reg _ _ I) | exact Hb1].
  - (* BindDelete *)
    cbn [mon]. unfold advance. rewrite Hw.
    pose proof (binv_step s (BindDelete p ctr ack c) (inv_b _ _ I)) as Hb1.
    cbn [step] in *. rewrite registry_call_eq in *.
    destruct (sender_known s p) as [pe|] eqn:Esk.
    2:{ simpl. split; [reflexivity|]. constructor; [reflexivity | apply (inv_reg _ _ I) | exact Hb1]. }
    destruct (sender_known_ski _ _ _ Esk) as [Hski _].
    rewrite remove_binding_eq in *. unfold bind_del in *. rewrite Hski in *.
    destruct (remote_feature pe (rc_cli c)) as [[en rf]|].
    2:{ cbn [fst snd] in *. split; [apply fail_verdict|]. constructor; [reflexivity | apply (inv_reg _ _ I) | exact Hb1]. }
    destruct (local_feature s (rc_srv c)) as [sf|].
    2:{ cbn [fst snd] in *. split; [apply fail_verdict|]. constructor; [reflexivity | apply (inv_reg _ _ I) | exact Hb1]. }
    rewrite (inv_reg _ _ I).
    rewrite (existsb_abs _ (hit_e p (default_dev pe (rc_cli c)) sf)) by (intros x; apply hit_strip).
    rewrite <- !andb_assoc in *.
    rewrite (del_tests s sf p (default_dev pe (rc_cli c)) (rf_addr en rf) (bi_single _ (inv_b _ _ I))) in *.
    rewrite (andb_comm (eqb_faddr (default_dev pe (rc_cli c)) (rf_addr en rf))
                       (role_type_ok (lf_role sf) (lf_type sf) RServer (lf_type sf) && _)).
    rewrite <- !andb_assoc.
    rewrite (andb_comm (existsb (hit_e p (default_dev pe (rc_cli c)) sf) (binds s))
                       (eqb_faddr (default_dev pe (rc_cli c)) (rf_addr en rf))).
    match goal with |- context [if ?b then _ else _] => destruct b end.
    + cbn [fst snd] in *. split.
      * rewrite ?Hski. apply ok_verdict.
      * constructor; simpl; [reflexivity | | exact Hb1].
        apply filter_abs. intros x. rewrite hit_strip. reflexivity.
    + cbn [fst snd] in *. split; [apply fail_verdict|]. constructor; [reflexivity | reflexivity | exact Hb1].
  - (* Disconnect *)
    cbn [mon]. unfold advance. rewrite Hw. split; [reflexivity|].
    apply (Inv_next s m); [exact I|]. rewrite (inv_reg _ _ I), drop_peer_abs, disconnect_binds by exact Hok. reflexivity.
Qed.

Theorem run_accepted_from ops : forall s m, Inv s m -> accepted (judge m (snd (run s ops))) = true.
Proof.
  induction ops as [|o ops IH]; intros s m I; [reflexivity|].
  simpl. pose proof (step_inv s m o I) as Hs.
  destruct (step s o) as [s1 out]. destruct (run s1 ops) as [s2 tr] eqn:Er. simpl in *.
  destruct (mon m o out) as [m1 v]. destruct Hs as [Hv I1]. subst v. simpl.
  specialize (IH s1 m1 I1). rewrite Er in IH. exact IH.
Qed.

Theorem run_accepted ops : accepted (judge minit (snd (run init ops))) = true.
Proof. apply run_accepted_from. exact inv_init. Qed.

(* ---------- corollaries on the model's registry ---------- *)
Theorem at_most_one ops sf : (length (bindings_on (fst (run init ops)) sf) <= 1)%nat.
Proof. apply bsingle_at_most_one. exact (bi_single _ (binv_run ops init binv_init)). Qed.

Theorem ids_distinct ops : NoDup (map e_id (binds (fst (run init ops)))).
Proof. destruct (si_ids _ (bi_s _ (binv_run ops init binv_init))) as [_ [_ [_ H]]]. exact H. Qed.

Theorem entries_owned ops : forall e, In e (binds (fst (run init ops))) ->
  exists pe en, find_peer (fst (run init ops)) (e_ski e) = Some pe /\ find_rent pe (fa_ent (e_cli e)) = Some en.
Proof. destruct (si_ok _ (bi_s _ (binv_run ops init binv_init))) as [_ H]. exact H. Qed.

(* a delete leaves every other binding in place: the registry after an accepted delete is the
   registry before minus the entries OF THE CALLING CONNECTION on the addressed (client address,
   server feature) pair,
   and a refused delete changes nothing *)
Theorem delete_exact s p ctr ack c :
  let s1 := fst (step s (BindDelete p ctr ack c)) in
  binds s1 = binds s \/
  exists pe sf, sender_known s p = Some pe /\ local_feature s (rc_srv c) = Some sf /\
    binds s1 = filter (fun x => negb (hit_e (p_ski pe) (default_dev pe (rc_cli c)) sf x)) (binds s).
Proof.
  cbn [step]. rewrite registry_call_eq. destruct (sender_known s p) as [pe|] eqn:Esk; [|left; reflexivity].
  rewrite remove_binding_eq. unfold bind_del.
  destruct (remote_feature pe (rc_cli c)) as [[en rf]|]; [|left; reflexivity].
  destruct (local_feature s (rc_srv c)) as [sf|] eqn:El; [|left; reflexivity].
  match goal with |- context [if ?b then _ else _] => destruct b end; [|left; reflexivity].
  right. exists pe, sf. auto.
Qed.

(* ---------- teardown overlapped by another peer's registry call (Model/StackX.v) ---------- *)
Theorem xrun_accepted ops : xaccepted (xjudge mon minit (snd (xrun init ops))) = true.
Proof. apply (xrun_accepted_from mon Inv step_inv). exact inv_init. Qed.
