#!/usr/bin/env python3
"""Regenerate MANIFEST.json from lib/props.py + lib/manifest_meta.py (keeps it valid at all times)."""
import json, os, sys
ROOT = os.path.dirname(os.path.dirname(os.path.abspath(__file__)))
sys.path.insert(0, os.path.join(ROOT, "lib"))
from props import PROPS

HOOK_COMMITS = [l.split()[0] for l in open(os.path.join(ROOT, "MANIFEST.hooks")) if l.strip() and not l.startswith("#")]
NA_FILE = os.path.join(ROOT, "props", "not_applicable.json")
NA = json.load(open(NA_FILE)) if os.path.exists(NA_FILE) else {}
_PENDING = "machinery for this property is still being built (plan in DESIGN.md section 9); not claimed until its check exists"
NOT_APPLICABLE = [{"property_id": "C%02d" % i, "reason": NA.get("C%02d" % i, _PENDING)} for i in range(1, 21) if "C%02d" % i not in PROPS]
# only properties listed in props/ENABLED are claimed (a property being built is not registered half-done)
ENABLED = [l.strip() for l in open(os.path.join(ROOT, "props", "ENABLED")) if l.strip() and not l.startswith("#")]
PROPS = {k: v for k, v in PROPS.items() if k in ENABLED}
NOT_APPLICABLE = [{"property_id": "C%02d" % i, "reason": NA.get("C%02d" % i, _PENDING)} for i in range(1, 21) if "C%02d" % i not in PROPS]
checks = []
for pid in sorted(PROPS):
    m = PROPS[pid]['manifest']
    checks.append({
        "property_id": pid,
        "quick_cmd": "bin/check %s quick" % pid,
        "thorough_cmd": "bin/check %s thorough" % pid,
        "evidence_file": "/verif/evidence/%s.json" % pid,
        "replay_cmd_template": "bin/check %s --replay {path}" % pid,
        "engine": "coq-proof+correspondence",
        "level_claimed": {"category": PROPS[pid].get("level", "proof"), "text": m["text"], "design_ref": m["design_ref"]},
        "level_note": m["note"],
        "technique": m["technique"],
    })
man = {
    "version": 1,
    "setup_cmd": "bin/setup",
    "hooks": {
        "guard": "verif",
        "enable": "go build -tags verif (harness module /verif/harness replaces github.com/enbility/spine-go by /repo)",
        "baseline_off_cmd": "cd /repo && GOFLAGS=-mod=mod GOPROXY=off go test -json -vet=off -count=1 -timeout 25m ./...",
        "source_commits": HOOK_COMMITS,
        "add_only": True,
    },
    "engines": [{"name": "coq-proof+correspondence", "path": "/verif/coq, /verif/harness, /verif/ocaml, /verif/bin/check",
                 "serves_properties": sorted(PROPS),
                 "kind_free_text": "Coq 8.16.1 theorems over executable Gallina models; models tied to /repo by a Go translator (coq/Gen regenerated each run) and by a correspondence harness that runs the real code and the extracted model + property monitor on the same histories"}],
    "checks": checks,
    "notes": "See DESIGN.md. Known findings in KNOWN_FINDINGS.txt. Every check rebuilds the harness against /repo's working tree.",
    "not_applicable": NOT_APPLICABLE,
}
json.dump(man, open(os.path.join(ROOT, "MANIFEST.json"), "w"), indent=1)
print("MANIFEST.json: %d checks, %d not_applicable" % (len(checks), len(NOT_APPLICABLE)))
