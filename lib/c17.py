"""C17 — custom orchestration (props/C17.json "custom": "c17"), reusing the helpers of bin/check.

  1. build: translator (gen) and the race workload runner (cmd/c17, -race, CGO) against the tree
  2. translator table `locks` -> coq/Gen/GenLocks.v + GenLocks.json (static lock analysis)
  3. make of Model/LockOrder, Proofs/LockOrderProofs, Properties/C17; re-check of
     Properties/C17.v with Print Assumptions; audit
  4. the search for a concrete failing schedule: the -race workload (mix + setters scenarios),
     GORACE="halt_on_error=0 log_path=...", reports parsed into (field, accessor, accessor)
  5. decision:
       race report / panic / stuck worker that is not a listed known finding -> VIOLATION, replay = the report
       table obligation (lock order or lockset) fails -> VIOLATION; the replay is the matching
         race report / goroutine dump when the workload found one, otherwise the failing table
         row(s) with ` no-failing-input-found`
       listed known findings: KNOWN-FINDING lines (static row still inconsistent and/or reproduced)
"""
import fnmatch, glob, json, os, re, shutil, subprocess, time

PKG = "github.com/enbility/spine-go/"


# ---------------------------------------------------------------- race reports

def norm_func(name):
    """runtime symbol -> accessor name used by the translator (harness/cmd/gen/locks.go shortName)"""
    if not name.startswith(PKG):
        return None
    s = name[len(PKG):]
    # drop generic instantiation arguments [...] (balanced)
    out, depth = [], 0
    for ch in s:
        if ch == "[":
            depth += 1
        elif ch == "]":
            depth -= 1
        elif depth == 0:
            out.append(ch)
    s = "".join(out)
    pkg, _, rest = s.partition(".")
    if pkg not in ("spine", "model"):
        return None
    rest = re.sub(r"\(\*?(\w+)\)", r"\1", rest)          # (*T).M -> T.M
    rest = re.sub(r"\.func(\d+)", r"$\1", rest)          # closures
    rest = re.sub(r"\.gowrap\d+", "", rest)
    rest = re.sub(r"\$(\d+)\.(\d+)", r"$\1$\2", rest)
    rest = re.sub(r"-fm$", "", rest)
    return rest if pkg == "spine" else "model." + rest


def rel_site(path, line):
    for d in ("/spine/", "/model/"):
        i = path.rfind(d)
        if i >= 0:
            return "%s:%s" % (path[i + 1:], line)
    return "%s:%s" % (os.path.basename(path), line)


def parse_race_log(text):
    """-> list of reports {kinds: [..], stacks: [[(func, site)..], ..], text}"""
    reports = []
    for block in text.split("=================="):
        if "WARNING: DATA RACE" not in block:
            continue
        accesses = []
        cur = None
        lines = block.split("\n")
        i = 0
        while i < len(lines):
            l = lines[i]
            m = re.match(r"^(Read|Write|Previous read|Previous write|Atomic read|Atomic write|Previous atomic read|Previous atomic write) at (0x[0-9a-f]+) by (?:goroutine (\d+)|main goroutine)", l, re.I)
            if m:
                cur = {"kind": m.group(1).lower().replace("previous ", ""), "frames": []}
                accesses.append(cur)
            elif l.startswith("Goroutine ") or l.startswith("Mutex "):
                cur = None
            elif cur is not None and l.startswith("  ") and not l.startswith("      "):
                fn = l.strip()
                fn = re.sub(r"\(\)$", "", fn)
                site = ""
                if i + 1 < len(lines) and lines[i + 1].startswith("      "):
                    mm = re.match(r"\s+(\S+):(\d+)", lines[i + 1])
                    if mm:
                        site = rel_site(mm.group(1), mm.group(2))
                cur["frames"].append((fn, site))
            i += 1
        if len(accesses) >= 2:
            reports.append({"accesses": accesses[:2], "text": "==================" + block + "=================="})
    return reports


def classify_report(rep, sites):
    """(class, detail): class = race:<field>:<accessorA>:<accessorB> (accessors sorted).
    accessor = innermost spine-go frame of the access; `~reflect.DeepEqual` is appended when the
    access is made by reflect.DeepEqual called from there (the location is then arbitrary: field "heap")."""
    sides = []
    deep = False
    for acc in rep["accesses"]:
        accessor, site = None, ""
        via = ""
        for fn, st in acc["frames"]:
            n = norm_func(fn)
            if n:
                accessor, site = n + via, st
                break
            if fn == "reflect.DeepEqual":
                via = "~reflect.DeepEqual"
        if accessor is None:
            # no spine-go frame at all on this side: harness or library code
            top = acc["frames"][0] if acc["frames"] else ("?", "")
            accessor, site = "outside:" + top[0], top[1]
        if via and accessor.endswith(via):
            deep = True
        sides.append((accessor, site, acc["kind"]))
    fa = set(sites.get(sides[0][1], []))
    fb = set(sites.get(sides[1][1], []))
    # a tracked field only when both sides are access sites of that same field; anything else
    # (container contents, memory published through a field, library internals) is "heap"
    common = sorted(fa & fb)
    field = common[0] if len(common) >= 1 and not deep else "heap"
    a, b = sorted([sides[0][0], sides[1][0]])
    return "race:%s:%s:%s" % (field, a, b), {"sides": sides, "candidate_fields": common}


def known_match(c, known):
    """exact class, or - for races on memory outside the static table only (field "heap") - a listed
    pattern race:heap:<accessor pattern>:<accessor pattern> (fnmatch, either order)"""
    if c in known:
        return c
    parts = c.split(":", 3)
    if len(parts) == 4 and parts[0] == "race" and parts[1] == "heap":
        x, y = split_accessors(parts[2] + ":" + parts[3])
        for k in known:
            kp = k.split(":", 3)
            if len(kp) == 4 and kp[0] == "race" and kp[1] == "heap" and ("*" in k or "?" in k):
                p1, p2 = split_accessors(kp[2] + ":" + kp[3])
                if (fnmatch.fnmatchcase(x, p1) and fnmatch.fnmatchcase(y, p2)) or (fnmatch.fnmatchcase(y, p1) and fnmatch.fnmatchcase(x, p2)):
                    return k
    return None


def split_accessors(s):
    """'a:b' -> (a, b) where an accessor may itself start with 'outside:'"""
    toks = s.split(":")
    out, i = [], 0
    while i < len(toks):
        if toks[i] == "outside" and i + 1 < len(toks):
            out.append("outside:" + toks[i + 1])
            i += 2
        else:
            out.append(toks[i])
            i += 1
    while len(out) < 2:
        out.append("")
    return out[0], ":".join(out[1:])


def slug(s):
    return re.sub(r"[^A-Za-z0-9.$]+", "-", s).strip("-")


def panic_class(key):
    site, _, msg = key.partition("|")
    n = norm_func(PKG + site) or site
    return "panic:%s:%s" % (n, slug(msg)[:60])


# ---------------------------------------------------------------- Coq side

def failing_rows(check, log):
    """Ask Coq itself which table rows break the obligations (names computed in Coq)."""
    d = os.path.join(check.BUILD, "cases")
    os.makedirs(d, exist_ok=True)
    f = os.path.join(d, "c17_failing.v")
    open(f, "w").write(
        "From Verif Require Import Base.Prelude Gen.GenLocks Model.LockOrder.\n"
        "From Coq Require Import String.\n"
        "Definition T := mkTables GenLocks.classes GenLocks.fields GenLocks.accesses GenLocks.excused_pairs.\n"
        "Definition names (l : list (N * N)) := map (fun p => (row_name T GenLocks.funcs (fst p), row_name T GenLocks.funcs (snd p))) l.\n"
        "Eval vm_compute in (names (inconsistent_pairs T false)).\n"
        "Eval vm_compute in (filter (fun e : N * N => negb (Nat.ltb (rank_of GenLocks.rank_table (fst e)) (rank_of GenLocks.rank_table (snd e)))) GenLocks.edges).\n"
        "Eval vm_compute in GenLocks.unsupported.\n"
        "Eval vm_compute in GenLocks.exempt_edges.\n")
    rc, o = check.sh(["timeout", "300", "coqc", "-Q", check.COQ, "Verif", f], timeout=400)
    log.append(o)
    return rc, o


def static_status(tables, known):
    """Recompute, outside Coq, which pairs of the table are inconsistent (for naming them and for
    matching them with race reports); Coq's own check is what decides."""
    cls = {c["id"]: c for c in tables["classes"]}
    byf = {}
    for r in tables["rows"]:
        byf.setdefault(r["field"], []).append(r)
    bad = {}
    for f, rs in byf.items():
        struct = f.rsplit(".", 1)[0]
        for i, a in enumerate(rs):
            for b in rs[i:]:
                if a["kind"] == "R" and b["kind"] == "R":
                    continue
                if a["prepub"] or b["prepub"] or (a["atomic"] and b["atomic"]):
                    continue
                if a.get("variant") and b.get("variant") and a["variant"] != b["variant"]:
                    continue
                ok = False
                for c1, m1 in a["held"] or []:
                    for c2, m2 in b["held"] or []:
                        if c1 == c2 and (m1 == 2 or m2 == 2) and (cls[c1]["owner"] in (struct, "")):
                            ok = True
                if not ok:
                    x, y = sorted([a["accessor"], b["accessor"]])
                    key = "race:%s:%s:%s" % (f, x, y)
                    bad.setdefault(key, []).append((a["id"], b["id"], a["sites"], b["sites"]))
    return bad


# ---------------------------------------------------------------- main

def run(check, pid, tier, seed, replay):
    cfg = check.PROPS[pid]
    t0 = time.time()
    log, lines_out = [], []
    violations = 0
    ROOT, BUILD, COQ, REPO = check.ROOT, check.BUILD, check.COQ, check.REPO
    workdir = os.path.join(BUILD, "c17-" + os.path.basename(check.bindir()))
    shutil.rmtree(workdir, ignore_errors=True)
    os.makedirs(workdir)
    proof_broken = None
    chk = None
    obligations = discharged = 0
    assumptions = {}
    tables = {}
    coq_failing = ""

    def replay_file(kind, n, payload):
        return check.write_replay(pid, kind, n, payload)

    if replay:
        print(open(replay).read())
        print("replay files of C17 are race reports / goroutine dumps / table rows; re-run `bin/check C17 %s` to search again" % tier)
        return 0

    try:
        with check.Lock("build.lock"):
            bins = check.go_build(["gen"])
            rbins = check.go_build([cfg["runner"]], race=True)
            rc, o = check.sh([bins["gen"], "-repo", REPO, "-out", os.path.join(COQ, "Gen")] + cfg["gen"], timeout=600, env=check.GOENV)
            log.append(o)
            if rc != 0:
                raise RuntimeError("translator failed (the tie to the source is broken)\n" + o)
            tables = json.load(open(os.path.join(COQ, "Gen", "GenLocks.json")))
            rc, o = check.coq_make(cfg["model_targets"], log)
            if rc != 0:
                raise RuntimeError("the lock machine no longer compiles\n" + o[-3000:])
            rc, o = check.coq_make(cfg["proof_targets"], log)
            if rc != 0:
                m = re.search(r'File "\./([^"]+)", line (\d+)', o)
                proof_broken = {"file": m.group(1) if m else "?", "line": int(m.group(2)) if m else 0, "log": o[-2500:]}
            if not proof_broken:
                rc, names, assumptions, o = check.property_theorems(pid, log)
                obligations = len(names)
                if rc != 0:
                    proof_broken = {"file": "Properties/%s.v" % pid, "line": 0, "log": o[-2500:]}
                else:
                    discharged = len(names)
                    bad_ax = {k: v for k, v in assumptions.items() if v}
                    if bad_ax:
                        proof_broken = {"file": "Properties/%s.v" % pid, "line": 0, "log": "axioms used: %r" % bad_ax}
            if tier == "thorough" and not proof_broken and not os.environ.get("VERIF_NO_COQCHK"):
                chk = check.coqchk(pid, log)
                if not chk["ok"]:
                    proof_broken = {"file": "coqchk Verif.Properties.%s" % pid, "line": 0, "log": chk.get("tail", "")}
            if proof_broken:
                rc, coq_failing = failing_rows(check, log)
        bad = check.audit()
        if bad:
            proof_broken = proof_broken or {"file": "audit", "line": 0, "log": "\n".join(bad)}
            proof_broken["audit"] = bad

        # ---- the race workload
        runs = []
        scenarios = [("mix", seed), ("setters", seed)]
        for sc, sd in scenarios:
            rdir = os.path.join(workdir, sc)
            os.makedirs(rdir)
            out = os.path.join(rdir, "result.json")
            dump = os.path.join(rdir, "goroutines.txt")
            env = dict(check.GOENV, GORACE="halt_on_error=0 log_path=%s" % os.path.join(rdir, "race"))
            cmd = [rbins[cfg["runner"]], "-tier", tier, "-seed", str(sd), "-scenario", sc, "-out", out, "-dump", dump]
            p = subprocess.run(cmd, env=env, stdout=subprocess.PIPE, stderr=subprocess.STDOUT, text=True,
                               timeout=cfg.get("timeout", {}).get(tier, 3000))
            log.append(p.stdout[-4000:])
            res = json.load(open(out)) if os.path.exists(out) else {}
            racetext = ""
            for f in sorted(glob.glob(os.path.join(rdir, "race.*"))):
                racetext += open(f, errors="replace").read()
            runs.append({"scenario": sc, "rc": p.returncode, "result": res, "race_text": racetext, "stdout": p.stdout, "dir": rdir})
    except Exception as e:
        msg = str(e)
        rp = replay_file("infrastructure", 0, {"property": pid, "error": msg})
        print(msg[-3000:])
        print("VIOLATION property=%s replay=%s no-failing-input-found" % (pid, rp))
        check.write_evidence(pid, cfg, tier, seed, {}, 0, 0, {}, 1, time.time() - t0, note="infrastructure failure: " + msg[:300])
        return 1

    known, _fixed = check.known_findings()
    known = known.get(pid, {})
    sites = tables.get("sites", {})
    static_bad = static_status(tables, known)

    # ---- classify what the workload exhibited
    found = {}      # class -> {count, sample, scenario}
    total_reports = 0
    crashes = []
    stuck = []
    ops = {}
    operations = 0
    for r in runs:
        reps = parse_race_log(r["race_text"])
        total_reports += len(reps)
        for rep in reps:
            c, detail = classify_report(rep, sites)
            e = found.setdefault(c, {"count": 0, "sample": rep["text"], "detail": detail, "scenario": r["scenario"]})
            e["count"] += 1
        res = r["result"]
        for key, cnt in (res.get("panics") or {}).items():
            c = panic_class(key)
            e = found.setdefault(c, {"count": 0, "sample": (res.get("panic_samples") or {}).get(key, ""), "detail": {"panic": key}, "scenario": r["scenario"]})
            e["count"] += cnt
        if res.get("stuck_worker"):
            dumptxt = open(res["dump"]).read() if res.get("dump") and os.path.exists(res["dump"]) else ""
            stuck.append({"scenario": r["scenario"], "worker": res["stuck_worker"], "goroutines": dumptxt[-200000:]})
        elif not res:
            # the process died (runtime fatal error such as concurrent map access, or a crash outside recover)
            m = re.search(r"fatal error: [^\n]*", r["stdout"])
            crashes.append({"scenario": r["scenario"], "rc": r["rc"], "what": m.group(0) if m else "no result file", "output": r["stdout"][-20000:]})
        for k, v in (res.get("op_distribution") or {}).items():
            ops[k] = ops.get(k, 0) + v
        operations += res.get("operations", 0)

    n = 0
    reproduced = {}
    for c in sorted(found):
        e = found[c]
        k = known_match(c, known)
        if k:
            reproduced[k] = reproduced.get(k, 0) + e["count"]
            continue
        n += 1
        rp = replay_file("race" if c.startswith("race:") else "panic", n, {"property": pid, "class": c, "occurrences": e["count"], "scenario": e["scenario"],
                                                                          "detail": e["detail"], "report": e["sample"]})
        lines_out.append("VIOLATION property=%s replay=%s" % (pid, rp))
        violations += 1
    for s in stuck:
        n += 1
        rp = replay_file("deadlock", n, {"property": pid, "stuck_worker": s["worker"], "scenario": s["scenario"], "goroutine_dump": s["goroutines"]})
        lines_out.append("VIOLATION property=%s replay=%s" % (pid, rp))
        violations += 1
    for cr in crashes:
        cls_ = "crash:" + slug(cr["what"])
        if cls_ in known:
            reproduced[cls_] = reproduced.get(cls_, 0) + 1
            continue
        n += 1
        rp = replay_file("crash", n, dict(cr, property=pid, **{"class": cls_}))
        lines_out.append("VIOLATION property=%s replay=%s" % (pid, rp))
        violations += 1
    concrete = violations > 0

    # ---- static obligations
    unlisted_static = sorted(c for c in static_bad if c not in known and not any(
        p.get("field") == c.split(":")[1] and sorted([p.get("a"), p.get("b")]) == c.split(":")[2:] for p in exemptions(ROOT).get("pairs", [])))
    if proof_broken:
        payload = {"property": pid, "no_longer_checks": proof_broken, "coq_says": coq_failing[-6000:],
                   "inconsistent_table_rows_not_listed": [{"class": c, "rows": static_bad[c][:4]} for c in unlisted_static],
                   "lock_order": {"acyclic": tables.get("acyclic"), "cycle_through": tables.get("cycle_through"),
                                  "self_edges": [e for e in tables.get("edges", []) if e["from"] == e["to"]]},
                   "unsupported": tables.get("unsupported")}
        # is one of the exhibited failures the concrete counterpart of the broken obligation?
        matching = [c for c in found if c in unlisted_static]
        if matching or stuck:
            payload["exhibited_by"] = matching or [s["worker"] for s in stuck]
        rp = replay_file("proof", 0, payload)
        suffix = "" if (concrete and (matching or stuck or not unlisted_static)) else " no-failing-input-found"
        lines_out.append("VIOLATION property=%s replay=%s%s" % (pid, rp, suffix))
        violations += 1
    elif unlisted_static:
        # cannot happen when Coq's check passed (the same computation); report it if the two ever disagree
        rp = replay_file("table", 0, {"property": pid, "rows": unlisted_static})
        lines_out.append("VIOLATION property=%s replay=%s no-failing-input-found" % (pid, rp))
        violations += 1

    known_lines = []
    stale = []
    for c in sorted(known):
        st = c in static_bad
        dy = reproduced.get(c, 0)
        if not st and not dy:
            if c.startswith("race:") and tables.get("dangling_excuses") and any(c.split(":")[1] in d for d in tables["dangling_excuses"]):
                stale.append(c)
            continue
        how = []
        if st:
            how.append("lockset table row pair inconsistent")
        if dy:
            how.append("exhibited %d time(s) by the -race workload" % dy)
        l = "KNOWN-FINDING: property=%s class=%s %s (%s)" % (pid, c, known[c], "; ".join(how))
        known_lines.append(l)
        lines_out.append(l)

    for l in lines_out:
        print(l)
    for c in stale:
        print("note: known finding %s no longer matches any row of the table (fixed upstream? remove the line)" % c)

    extra = {
        "static_analysis": {
            "mutex_classes": len(tables.get("classes", [])), "acquisition_sites": tables.get("acquisition_sites"),
            "nested_acquisition_edges": len(tables.get("edges", [])), "lock_order_acyclic": tables.get("acyclic"),
            "rank_certificate": tables.get("rank"), "access_rows": len(tables.get("rows", [])),
            "rows_before_publication": sum(1 for r in tables.get("rows", []) if r["prepub"]),
            "rows_atomic": sum(1 for r in tables.get("rows", []) if r["atomic"]),
            "api_roots": tables.get("api_roots"), "spawned_threads": tables.get("spawned_threads"),
            "contexts_analysed": tables.get("contexts_analysed"), "unsupported_shapes": tables.get("unsupported") or [],
            "function_value_resolution": tables.get("function_value_resolution"),
            "inconsistent_pairs_listed_as_known": sorted(c for c in static_bad if c in known),
            "inconsistent_pairs_not_listed": unlisted_static,
            "stale_known_findings": stale,
        },
        "race_workload": {
            "scenarios": [{"scenario": r["scenario"], "exit": r["rc"], "operations": r["result"].get("operations"),
                           "per_worker": r["result"].get("per_worker"), "stuck_worker": r["result"].get("stuck_worker"),
                           "events_to_application_handler": r["result"].get("events_delivered_to_application_handler")} for r in runs],
            "race_reports": total_reports, "distinct_classes": len(found),
            "classes_exhibited": {c: found[c]["count"] for c in sorted(found)},
            "known_reproduced": reproduced,
        },
    }
    result = {"histories": len(runs), "operations": operations, "op_distribution": ops, "distinct_nontrivial": len(runs),
              "known_findings": {c: reproduced.get(c, 0) for c in sorted(known) if c in static_bad or reproduced.get(c)},
              "samples": []}
    if chk:
        extra["coqchk"] = chk
    check.write_evidence(pid, cfg, tier, seed, result, obligations, discharged, assumptions, violations, time.time() - t0,
                         known_lines=known_lines, extra=extra)
    print("%s %s: %d workload runs / %d operations, %d race reports in %d classes, %d/%d theorems re-checked, %d violations, %.1fs" % (
        pid, tier, len(runs), operations, total_reports, len(found), discharged, obligations, violations, time.time() - t0))
    return 1 if violations else 0


def exemptions(root):
    p = os.path.join(root, "props", "C17.exemptions.json")
    try:
        return json.load(open(p))
    except FileNotFoundError:
        return {}
