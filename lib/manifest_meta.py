"""Texts of MANIFEST.json per property; NOT_APPLICABLE lists what is not (yet) claimed."""
HOOK_COMMITS = []

PROOF_TECH = "machine-checked proof in Coq over an executable model + correspondence check against the implementation"

META = {
    "C13": {
        "text": "Coq theorems, for every history: the model of spine/send.go produces only traces accepted by the property monitor (unique and strictly increasing counters, sound request de-duplication, retrievable notifications within the recorded scope), bounded request memory; refutation witness for the LRU clause. The model is compared with the real Sender step by step on generated histories and the same extracted monitor judges the implementation's traces.",
        "design_ref": "DESIGN.md section 4, C13",
        "note": "Trusted: Coq kernel, extraction (ExtrOcamlBasic), OCaml driver, Go harness abstraction, sha256/JSON injectivity, re-modelled lrucache; each Sender critical section atomic. Known finding: lru-get-refreshes-recency.",
        "technique": PROOF_TECH,
    },
}

_PENDING = "machinery for this property is still being built in this session (see DESIGN.md section 9 for the plan); not claimed until its check exists"
NOT_APPLICABLE = [{"property_id": "C%02d" % i, "reason": _PENDING} for i in range(1, 21) if "C%02d" % i not in META]
