"""Per-property configuration of bin/check."""

KERNEL = "Coq 8.16.1 kernel (coqc, full .vo build); vm_compute for refutation witnesses and non-vacuity examples; no native_compute"
EXTRACT = "extraction: ExtrOcamlBasic only (bool/option/unit/list/prod/sumbool/comparison mapped to OCaml), no Extract Constant; N/Z/positive/nat stay Coq datatypes; ocaml/drvlib.ml (~110 lines); cross-checked per run against in-Coq vm_compute"
HARNESS = "correspondence harness harness/hx (generators, shrinker) and the per-property abstraction between API observations and the integer encoding"

PROPS = {
    "C13": {
        "runner": "c13",
        "gen": ["consts"],
        "machine": "C13",
        "model_file": "Model/Sender.v",
        "model_targets": ["Extract/Machines.vo"],
        "proof_targets": ["Properties/C13.vo"],
        "level": "proof",
        "rule": "histories of Request/Subscribe/Bind/Unsubscribe/Unbind over 4 destinations x 8 commands, responses (matching, unknown, already answered, nil), notifications, reply/result/write and DatagramForMsgCounter lookups; four generators (mixed, >20 unanswered requests, >100 notifications with lookups at the end, notifications interleaved with lookups); a history is non-trivial when it has at least 2 operations, distinct by the hash of its operation list",
        "trusted_base": [KERNEL, EXTRACT, HARNESS,
                         "translator harness/cmd/gen (consts): reads the request-cache limit and the LRU size from spine/send.go",
                         "modelled not verified: sha256/JSON injectivity of the request hash (hash = (destination, command) id); golanguzb70/lrucache re-modelled (Get/Put) and compared; atomic.AddUint64 as one atomic step; counter wrap-around at 2^64 out of scope"],
        "assumptions": ["each Sender method body between lock acquisition and release is atomic (muxRequestSend, muxNotifyCache); the concurrent clause is supported by the schedule theorem plus a goroutine run in the thorough tier",
                        "known finding lru-get-refreshes-recency: retrieval clause excused after a lookup followed by a notification"],
        "explanation": "Theorems over Model/Sender.v: every trace is accepted by the extracted monitor Spec/SenderSpec.v (unique, increasing counters; sound de-duplication; retrievable notifications within scope); bounded request memory; refutation witness for the unscoped retrieval clause. The same monitor judges the implementation's traces; implementation and model are compared step by step.",
    },
}
