"""Per-property configuration: one JSON file per property under /verif/props (check
configuration and MANIFEST texts together, so that properties can be worked on
independently)."""
import glob, json, os

ROOT = os.path.dirname(os.path.dirname(os.path.abspath(__file__)))

KERNEL = "Coq 8.16.1 kernel (coqc, full .vo build); vm_compute for refutation witnesses, table theorems and non-vacuity examples; no native_compute"
EXTRACT = "extraction: ExtrOcamlBasic only (bool/option/unit/list/prod/sumbool/comparison mapped to OCaml), no Extract Constant; N/Z/positive/nat stay Coq datatypes; ocaml/drvlib.ml (~110 lines); cross-checked per run against in-Coq vm_compute"
HARNESS = "correspondence harness harness/hx (generators, shrinker) and the per-property abstraction between API observations and the integer encoding"


def load():
    out = {}
    for f in sorted(glob.glob(os.path.join(ROOT, "props", "C*.json"))):
        out[os.path.basename(f)[:-5]] = json.load(open(f))
    return out


PROPS = load()
